#!/bin/bash
# Detection robustness: every seeded change against its property's quick tier under several VERIF_SEED values.
# usage: tools/robust.sh "<seeds>"      (writes nothing into seeded/)
cd "$(dirname "$0")/.."; V=$(pwd)
for seed in ${1:-1 2}; do
  for s in $(ls seeded | grep -v json); do
    prop=${s%%-*}
    d=$(mktemp -d /tmp/gsrc-XXXXXX); cp -r /repo/src $d/src
    patch -p1 -s -d $d -i $V/seeded/$s/patch.diff || { echo "seed=$seed $s PATCH-FAILED"; rm -rf $d; continue; }
    out=$(GALLIA_SRC=$d/src VERIF_SEED=$seed timeout 1800 /venv/bin/python -m simcheck $prop --tier quick 2>&1); rc=$?
    rm -rf $d
    case $rc in 1) v=DETECTED;; 0) v=MISSED;; *) v="ERROR($rc)";; esac
    echo "seed=$seed $s $v $(echo "$out" | grep -m1 signature | cut -c1-110)"
  done
done
find $V/replays -name '*.json' ! -name 'known-*' -delete
