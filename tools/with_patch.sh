#!/bin/bash
# usage: tools/with_patch.sh <patch.diff> <command...>
# Runs <command> with GALLIA_SRC pointing at a scratch copy of /repo/src with the patch applied;
# the copy is removed afterwards.  /repo itself is never touched.
set -u
patch="$1"; shift
d=$(mktemp -d /tmp/gsrc-XXXXXX)
cp -r /repo/src "$d/src"
if ! (cd "$d" && patch -p1 -s < "$patch"); then echo "patch failed"; rm -rf "$d"; exit 3; fi
GALLIA_SRC="$d/src" "$@"
rc=$?
rm -rf "$d"
exit $rc
