#!/bin/bash
# Regenerates every evidence file from /verif against /repo (quick tier, default seed), MANIFEST.json, and validates both.
cd /verif
unset GALLIA_SRC
fail=0
for p in C04 C05 C06 C07 C08 C09 C10 C11 C12 C13 C14 C15 C16 C17 C19; do
  out=$(timeout 1800 /venv/bin/python -m simcheck $p --tier quick 2>&1); rc=$?
  echo "$p rc=$rc $(echo "$out" | tail -1 | cut -c1-160)"
  [ $rc -ne 0 ] && { fail=1; echo "$out" | grep -A3 "VIOLATION\|HARNESS" | head -12; }
done
/venv/bin/python tools/gen_manifest.py
python3-vt - <<'PY'
import json, jsonschema, glob
es=json.load(open('/root/.vp/EVIDENCE.schema.json')); ms=json.load(open('/root/.vp/MANIFEST.schema.json'))
jsonschema.validate(json.load(open('/verif/MANIFEST.json')), ms)
for f in sorted(glob.glob('/verif/evidence/*.json')):
    e=json.load(open(f)); jsonschema.validate(e, es)
    assert e.get('violations', 0) in (0, None) or e['violations'] == 0, f
print("manifest + evidence valid")
PY
exit $fail
