#!/bin/bash
# Determinism self-test: the same plans executed in different interpreters / hash seeds / worker counts
# must give identical seam-level trace digests.   usage: tools/determinism.sh [runs] [props...]
runs="${1:-300}"; shift
props="${@:-C04 C05 C06 C07 C08 C09 C10 C11 C12 C13 C14 C15 C16 C17 C19}"
d=$(mktemp -d /tmp/det-XXXXXX)
fail=0
for p in $props; do
  r=$runs
  case $p in C09|C10|C12|C15|C17) r=$((runs/5));; C16) r=3;; esac
  PYTHONHASHSEED=0     VERIF_SEED=7 VERIF_DIGESTS=$d/$p.a /venv/bin/python -m simcheck $p --runs $r --jobs 16 > $d/$p.a.log 2>&1
  PYTHONHASHSEED=98765 VERIF_SEED=7 VERIF_DIGESTS=$d/$p.b /venv/bin/python -m simcheck $p --runs $r --jobs 5  > $d/$p.b.log 2>&1
  if cmp -s $d/$p.a $d/$p.b; then echo "$p deterministic over $r plans (hash seeds 0/98765, 16/5 workers)"; else
    fail=1; echo "$p NONDETERMINISTIC"; /venv/bin/python - "$d/$p.a" "$d/$p.b" <<'PY'
import json,sys
a=json.load(open(sys.argv[1])); b=json.load(open(sys.argv[2]))
diff=[k for k in a if a.get(k)!=b.get(k)]
print("  differing plan indices:", diff[:20], "of", len(a))
PY
  fi
done
rm -rf $d
exit $fail
