#!/bin/bash
# usage: tools/hunt_all.sh <first seed> <last seed> [props...]
a=$1; b=$2; shift 2
for p in ${@:-C04 C05 C06 C07 C08 C10 C11 C12 C13 C14 C15 C17 C19}; do tools/hunt.sh $p $a $b; done
