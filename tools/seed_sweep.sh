#!/bin/bash
# usage: tools/seed_sweep.sh "<seeds>" [props...]   - runs the quick tier for several VERIF_SEED values; prints one line per run
seeds="$1"; shift
props="${@:-C04 C05 C06 C07 C08 C09 C10 C11 C12 C13 C14 C15 C16 C17 C19}"
fail=0
for s in $seeds; do
  for p in $props; do
    out=$(VERIF_SEED=$s timeout 1800 /venv/bin/python -m simcheck $p --tier quick 2>&1)
    rc=$?
    echo "seed=$s $p rc=$rc $(echo "$out" | tail -1)"
    if [ $rc -ne 0 ]; then fail=1; echo "$out" | grep -A2 "VIOLATION\|HARNESS" | head -20; fi
  done
done
exit $fail
