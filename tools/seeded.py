#!/venv/bin/python
"""Seeded-change bookkeeping.

  tools/seeded.py import <agent-out-dir> <id> <property>   copy patch.diff/demo.py/notes.md into /verif/seeded/<id>/
  tools/seeded.py confirm <id>      scratch worktree of /repo: patch applies, 31 tests pass, demo fails with / passes without
  tools/seeded.py detect <id> [tier] run the property's check against a scratch copy with the patch (GALLIA_SRC); records the verdict
  tools/seeded.py table             one line per seeded change
Nothing is ever applied to /repo itself.
"""

from __future__ import annotations

import json
import os
import shutil
import subprocess
import sys
import tempfile

VERIF = os.path.dirname(os.path.dirname(os.path.abspath(__file__)))
SEEDED = os.path.join(VERIF, "seeded")
PY = "/venv/bin/python"


def sh(cmd: list[str], **kw):  # type: ignore[no-untyped-def]
    return subprocess.run(cmd, capture_output=True, text=True, errors="replace", **kw)


def load_meta(sid: str) -> dict:
    p = os.path.join(SEEDED, sid, "meta.json")
    return json.load(open(p)) if os.path.exists(p) else {}


def save_meta(sid: str, meta: dict) -> None:
    with open(os.path.join(SEEDED, sid, "meta.json"), "w") as f:
        json.dump(meta, f, indent=1)


def cmd_import(src: str, sid: str, prop: str) -> int:
    d = os.path.join(SEEDED, sid)
    os.makedirs(d, exist_ok=True)
    for name in ("patch.diff", "demo.py", "notes.md"):
        if os.path.exists(os.path.join(src, name)):
            shutil.copy(os.path.join(src, name), os.path.join(d, name))
    meta = load_meta(sid)
    meta.update({"id": sid, "property": prop, "origin": "independent sub-agent given only the property text and a scratch worktree"})
    save_meta(sid, meta)
    return 0


def cmd_confirm(sid: str) -> int:
    d = os.path.join(SEEDED, sid)
    wt = tempfile.mkdtemp(prefix="confirm-", dir="/tmp")
    os.rmdir(wt)
    meta = load_meta(sid)
    try:
        r = sh(["git", "-C", "/repo", "worktree", "add", "--detach", wt, "HEAD"])
        if r.returncode:
            print(r.stderr)
            return 2
        env = dict(os.environ, PYTHONPATH=os.path.join(wt, "src"))
        clean = sh([PY, os.path.join(d, "demo.py")], env=env, cwd=wt, timeout=600)
        ap = sh(["git", "-C", wt, "apply", os.path.join(d, "patch.diff")])
        if ap.returncode:
            print("patch does not apply:", ap.stderr)
            meta["confirmed"] = False
            meta["confirm_note"] = "patch does not apply to /repo HEAD"
            save_meta(sid, meta)
            return 1
        tests = sh([PY, "-m", "pytest", "-q", "-p", "no:cacheprovider", "--timeout=900"], env=env, cwd=wt, timeout=1800)
        demo = sh([PY, os.path.join(d, "demo.py")], env=env, cwd=wt, timeout=600)
        tail = tests.stdout.strip().splitlines()[-1] if tests.stdout.strip() else tests.stderr[-200:]
        ok = clean.returncode == 0 and demo.returncode != 0 and tests.returncode == 0 and "31 passed" in tail
        meta["confirmed"] = ok
        meta["confirm"] = {
            "repo_head": sh(["git", "-C", "/repo", "rev-parse", "--short", "HEAD"]).stdout.strip(),
            "demo_without_change_rc": clean.returncode,
            "demo_with_change_rc": demo.returncode,
            "pytest_with_change": tail,
            "commands": ["git -C /repo worktree add --detach <wt> HEAD", "PYTHONPATH=<wt>/src python demo.py", "git -C <wt> apply patch.diff",
                         "PYTHONPATH=<wt>/src python -m pytest -q -p no:cacheprovider --timeout=900", "PYTHONPATH=<wt>/src python demo.py"],
        }
        save_meta(sid, meta)
        print(f"{sid}: confirmed={ok} demo clean rc={clean.returncode} with change rc={demo.returncode}; tests: {tail}")
        return 0 if ok else 1
    finally:
        sh(["git", "-C", "/repo", "worktree", "remove", "--force", wt])
        shutil.rmtree(wt, ignore_errors=True)


def cmd_detect(sid: str, tier: str = "quick", props: list[str] | None = None) -> int:
    d = os.path.join(SEEDED, sid)
    meta = load_meta(sid)
    props = props or [meta["property"]]
    scratch = tempfile.mkdtemp(prefix="gsrc-", dir="/tmp")
    try:
        shutil.copytree("/repo/src", os.path.join(scratch, "src"))
        ap = sh(["patch", "-p1", "-s", "-d", scratch, "-i", os.path.join(d, "patch.diff")])
        if ap.returncode:
            print("patch failed", ap.stdout, ap.stderr)
            return 2
        env = dict(os.environ, GALLIA_SRC=os.path.join(scratch, "src"))
        env.pop("PYTHONHASHSEED", None)
        verdicts = meta.setdefault("detection", {})
        rc_all = 0
        for prop in props:
            r = sh([PY, "-m", "simcheck", prop, "--tier", tier], env=env, cwd=VERIF, timeout=7200)
            sigs = [l.split("signature:", 1)[1].strip() for l in r.stdout.splitlines() if "signature:" in l]
            more = [l.strip() for l in r.stdout.splitlines() if l.startswith("      C")]
            verdicts[f"{prop}:{tier}"] = {"exit": r.returncode, "detected": r.returncode == 1, "signatures": (sigs + more)[:12], "summary": r.stdout.strip().splitlines()[-1][:300] if r.stdout.strip() else r.stderr[-300:]}
            print(f"{sid} {prop} {tier}: exit={r.returncode} {'DETECTED' if r.returncode == 1 else 'MISSED' if r.returncode == 0 else 'HARNESS-ERROR'} {sigs[:3]}")
            if r.returncode == 2:
                print(r.stdout[-1500:], r.stderr[-1500:])
            rc_all = rc_all or (0 if r.returncode == 1 else 1)
        save_meta(sid, meta)
        # replays written by a mutant run are not findings on the real tree
        for f in os.listdir(os.path.join(VERIF, "replays")):
            if f.endswith(".json") and not f.startswith("known-"):
                os.remove(os.path.join(VERIF, "replays", f))
        return rc_all
    finally:
        shutil.rmtree(scratch, ignore_errors=True)


def cmd_table() -> int:
    for sid in sorted(os.listdir(SEEDED)):
        m = load_meta(sid)
        det = "; ".join(f"{k}={'hit' if v['detected'] else 'MISS' if v['exit'] == 0 else 'ERR'}" for k, v in m.get("detection", {}).items())
        print(f"{sid:10s} {m.get('property', '?'):4s} confirmed={m.get('confirmed')} {det}  {m.get('title', '')[:80]}")
    return 0


if __name__ == "__main__":
    a = sys.argv[1:]
    if not a:
        print(__doc__)
        sys.exit(2)
    if a[0] == "import":
        sys.exit(cmd_import(a[1], a[2], a[3]))
    if a[0] == "confirm":
        sys.exit(cmd_confirm(a[1]))
    if a[0] == "detect":
        sys.exit(cmd_detect(a[1], a[2] if len(a) > 2 else "quick", a[3:] or None))
    if a[0] == "table":
        sys.exit(cmd_table())
