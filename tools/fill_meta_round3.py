#!/venv/bin/python
"""Round-3 seeded changes: title / needs_to_manifest (from the author's notes.md), round, first evaluation and strengthening."""
import json, os, re
os.chdir(os.path.join(os.path.dirname(os.path.abspath(__file__)), ".."))
missed={"C05-6","C06-7","C10-5","C10-6","C10-7","C11-7","C15-6","C15-7","C19-5","C19-7"}
strength={
 "C05-6":"C05: a third of the callers now use ECU.send_raw() (RawRequest), the path every scanner takes, alongside the typed API",
 "C06-7":"C06/C07: 'flood' stratum (a burst of frames for other requesters that fills the gateway queue) and classification of exceptions raised by close()",
 "C10-5":"C10: --skip given as the range expressions the CLI accepts (parsed by the real parser), with real session ranges",
 "C10-6":"C10: ECU model that leaves the next DiagnosticSessionControl after a fall-back unanswered once; completeness judged as 'no gaps before the last probed id' after such an event",
 "C10-7":"none in C10: needs late/stale replies, a network timing fault outside C10's quantifier (all ECU models x scan options on a benign link); under that fault the unchanged scanner also miscounts (replies shift by one). The same one-line code change is caught by C05 (seeded C05-6).",
 "C11-7":"C11: 'log_off_at_start' plans (logging switched off before the first request, switched on later)",
 "C15-6":"C15: 'db_locked' stratum (database teardown fails) for every lifecycle position",
 "C15-7":"C15: log records with non-ASCII / surrogate text ('odd_text' marker) and a stepped consumer that dies like the real thread when a handler raises",
 "C19-5":"C19: 'late_drain' plans (peer reads late; writer must be drained) and SimNet honours limit=",
 "C19-7":"C19: same strengthening as C19-5 (stream limit honoured by SimNet, long lines)",
 "C12-7":"C12: a discovery run registers the addresses before any scan (35 % of plans), and an exception raised by gallia's own recording path (DBHandler / client / server, fault-free) is a violation (C12/record:exception:*) instead of a harness error",
 "C09-7":"detected at first evaluation, but missed under VERIF_SEED=3 in the robustness sweep: C09 now also skips the numeric neighbour below a session offered by the default session (15 % of plans)",
}
for d in sorted(os.listdir('seeded')):
    if not re.search(r'-[567]$', d): continue
    mp=f'seeded/{d}/meta.json'; m=json.load(open(mp))
    notes=open(f'seeded/{d}/notes.md', errors='replace').read()
    head=notes.splitlines()[0]
    title=re.sub(r'^#\s*(C\d+\s*/?\s*)?[Cc]hange\s*\d+\s*[-:]\s*','',head).strip()
    mm=re.search(r'##[^\n]*[Nn]eed[^\n]*\n(.*?)(?:\n##|\Z)', notes, re.S) or re.search(r'\n[^\n]*[Nn]eeded[^\n:]*:\s*(.*?)(?:\n\s*\n|\Z)', notes, re.S)
    needs=' '.join(mm.group(1).split())[:600] if mm else ''
    m['title']=title; m['needs_to_manifest']=needs; m['round']=3
    m['first_evaluation']='missed' if d in missed else 'harness error (exit 2), no verdict' if d == "C12-7" else 'detected'
    if d in strength: m['strengthening']=strength[d]
    m['ran']=[f"tools/seeded.py confirm {d}", f"tools/seeded.py detect {d} quick"]
    json.dump(m, open(mp,'w'), indent=1)
    if not needs: print("no needs:", d)
