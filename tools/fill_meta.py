#!/venv/bin/python
"""Fill title / needs_to_manifest (from the author's notes.md), round, first evaluation and strengthening of a round.

  tools/fill_meta.py <round> <suffixes, e.g. 8,9,10> <json file: {"missed": [...], "error": [...], "strengthening": {id: text}}>
"""
import json, os, re, sys
os.chdir(os.path.join(os.path.dirname(os.path.abspath(__file__)), ".."))
rnd = int(sys.argv[1]); suffixes = sys.argv[2].split(","); info = json.load(open(sys.argv[3]))
missed = set(info.get("missed", [])); error = set(info.get("error", [])); strength = info.get("strengthening", {})
for d in sorted(os.listdir("seeded")):
    if d.rsplit("-", 1)[-1] not in suffixes:
        continue
    mp = f"seeded/{d}/meta.json"; m = json.load(open(mp))
    notes = open(f"seeded/{d}/notes.md", errors="replace").read()
    head = notes.splitlines()[0]
    title = re.sub(r"^#\s*(C\d+\s*/?\s*)?[Cc]hange\s*\d+\s*[-:–—]\s*", "", head).strip()
    mm = re.search(r"##[^\n]*[Nn]eed[^\n]*\n(.*?)(?:\n##|\Z)", notes, re.S) or re.search(r"\n[^\n]*[Nn]eeded[^\n:]*:\s*(.*?)(?:\n\s*\n|\Z)", notes, re.S)
    needs = " ".join(mm.group(1).split())[:600] if mm else ""
    m["title"] = title; m["needs_to_manifest"] = needs; m["round"] = rnd
    m["first_evaluation"] = "missed" if d in missed else "harness error (exit 2), no verdict" if d in error else "detected"
    if d in strength:
        m["strengthening"] = strength[d]
    m["ran"] = [f"tools/seeded.py confirm {d}", f"tools/seeded.py detect {d} quick"]
    json.dump(m, open(mp, "w"), indent=1)
    if not needs:
        print("no needs:", d)
