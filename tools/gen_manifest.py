#!/usr/bin/env python3
"""Writes /verif/MANIFEST.json from the table below (only checks whose module exists are claimed)."""

import json
import os

VERIF = os.path.dirname(os.path.dirname(os.path.abspath(__file__)))
PY = "/venv/bin/python"

NA = {
    "C01": "pure function of the constructor arguments (request codec): no schedule, clock, fault, I/O or interleaving for a simulator to own; deterministic simulation does not apply (DESIGN 4/C01)",
    "C02": "pure function of the reply bytes (response codec): nothing to schedule, delay, crash or fault (DESIGN 4/C02)",
    "C03": "pure predicate over (request, reply bytes): quantified over all pairs, no time/fault/interleaving dimension (DESIGN 4/C03)",
    "C18": "settings precedence is a pure function of (argv, environment, file text, defaults): no interleaving, timer, fault or crash point (DESIGN 4/C18)",
    "C20": "URI / range parsers and printers are pure functions of their input (DESIGN 4/C20)",
}

CHECKS = {
    "C04": dict(
        level="exploration",
        text="Seeded search over transport event scripts (timeouts, connection errors, empty reads, busy, pending storms, mismatching/malformed/late replies) under virtual time; every run is judged by a reference state machine of the statement driven by the transport-level history, plus liveness caps; writes that stall (bounded by the request timeout), reconnect() returning a new transport object. Sampling, not enumeration.",
        note="Trusted: asyncio's own loop/timer/queue code (run unmodified under a virtual clock); fixed reply byte classes per request kind; named client constants (poll 0.5 s, 120 pendings, max(T,20) s silence).",
        technique="deterministic simulation: real UDSClient/ECU on a virtual-time asyncio loop with a scripted fault-injecting transport; reference-model history check",
        ref="4/C04",
    ),
    "C05": dict(
        level="exploration",
        text="Seeded schedules of 2-5 concurrent callers (incl. the cyclic tester-present worker, reconnect, wait_for_ecu, a cancellation at an arbitrary virtual instant) on one client; online mutual-exclusion and reply-attribution invariants over the tagged wire history (incl. 'no request while another task still reads') and bounded progress after cancellation or after a budgeted reconnect to an unreachable ECU.",
        note="Trusted: asyncio Lock/Task semantics as shipped; responder model echoes a unique tag per request.",
        technique="deterministic simulation: seeded task arrival/reply-delay/cancellation schedules on a virtual-time loop; invariant checking over the recorded wire history",
        ref="4/C05",
    ),
    "C06": dict(
        level="fault_enumeration",
        text="Real DoIPTransport/DoIPConnection against a scripted DoIP gateway on the simulated network: stratified single-split offsets plus seeded multi-splits, frame interleavings (acks, NACKs, foreign/unknown frames, alive checks in every client phase), all activation types and response codes; frames delivered in parts around protocol timer instants; byte-exact activation, demultiplexing model, write<=>ack, alive-check deadline.",
        note="Gateway model is a stub written from ISO 13400-2 and the code's comments; kernel socket buffering is not modelled.",
        technique="deterministic simulation with fault injection: seeded segmentation/interleaving/latency on simulated TCP streams; reference demultiplexing model",
        ref="4/C06",
    ),
    "C07": dict(
        level="fault_enumeration",
        text="Real HSFZTransport/HSFZConnection against a scripted HSFZ gateway: segmentation at every offset, frame interleavings (acks, data for other pairs, alive checks, short frames, status/error control words), ack timeouts; D-prefix model for reads, write<=>ack, alive-check reply, error control word => connection error + close.",
        note="Gateway model is a stub; status control words have an allow-set (ignored or connection error).",
        technique="deterministic simulation with fault injection: seeded segmentation/interleaving/latency on simulated TCP streams; reference demultiplexing model",
        ref="4/C07",
    ),
    "C08": dict(
        level="fault_enumeration",
        text="For tcp-lines, unix-lines, DoIP and HSFZ: the connection is cut (EOF / RST / black hole / stall) at every byte offset of a recorded exchange in both directions, under transport.read/write, UDSClient.request and wait_for_ecu, with peer restart delays; bounded completion (deadlock detector), outcome class, no fabricated data, recovery through reconnect (with the configured HSFZ ack time / DoIP tester identity still in force on the new connection), idempotent close.",
        note="Single cuts are stratified over all offsets of a canonical exchange per transport; double cuts sampled. No kernel buffer limits.",
        technique="deterministic simulation with fault injection: crash-point sweep over byte offsets of the simulated stream, virtual-time deadlock detection",
        ref="4/C08",
    ),
    "C09": dict(
        level="exploration",
        text="The real SessionsScanner command (entry_point) against graph ECUs built on gallia's UDSServer default-response chain, over random transition graphs, depths, skip lists, tester-present phases, latencies and segmentations; result compared with BFS reachability on the model, stacks replayed, termination by virtual-time cap; ECUs that reboot some ms after acknowledging a reset or leave session requests unanswered.",
        note="Graphs give every session an edge to the default session (ISO precondition the scanner documents). No message loss injected.",
        technique="deterministic simulation: full scanner command on a virtual-time loop against a model ECU over a simulated network; graph-reachability oracle",
        ref="4/C09",
    ),
    "C10": dict(
        level="exploration",
        text="Real ServicesScanner and ScanIdentifiers commands against model ECUs with drawn service tables; ground truth computed from an independent copy of the model; ECU-side monitor checks that every probe ran in the claimed session and skipped ids never hit the wire; ECUs that reboot after the acknowledgement, latency spikes below every timeout.",
        note="Model ECU subclasses RandomUDSServer, so identifier answers are gallia's own stateful_rng answers.",
        technique="deterministic simulation: full scanner commands on a virtual-time loop against model ECUs; ground-truth comparison and ECU-side session monitor",
        ref="4/C10",
    ),
    "C11": dict(
        level="fault_enumeration",
        text="Real ECU + DBHandler on a simulated aiosqlite (real sqlite3 file, seeded per-statement latency so the writer lags) inside a real UDSScanner run; histories over every outcome class with crash/cancel points at arbitrary virtual instants; rows read back with sqlite3 and compared with the wire history; Ctrl-C also while the handler is being closed; a competing writer holding the database lock within the busy timeout (order still judged).",
        note="aiosqlite's thread proxy is replaced by a deterministic awaitable with the same API; transient 'database is locked' errors only in separately counted configurations (row order not judged there).",
        technique="deterministic simulation with crash-point injection: slow storage worker, SIGINT/exception at arbitrary virtual instants; history check of rows vs wire log",
        ref="4/C11",
    ),
    "C12": dict(
        level="exploration",
        text="Record phase (real ECU + DBHandler vs RandomUDSServer over the simulated network) then replay phase (real DBUDSServer on the recorded file); reply bytes compared position by position, presupposition monitor on state tracking; databases with several runs/ECUs/addresses, a discovery run before the scans, replies lost or later than the tester's timeout, wall clock stepping backwards while recording, a second writer holding the database lock while recording.",
        note="Silent-row configuration is reported separately.",
        technique="deterministic simulation: two-phase record/replay on a virtual-time loop with simulated storage; position-wise byte comparison",
        ref="4/C12",
    ),
    "C13": dict(
        level="exploration",
        text="Real RandomUDSServer behind handle_request (clock seam) checked operation by operation against an executable model of the ISO 14229-1 default-response rules, over seeds, randomness parameters, behaviour-switch subsets, histories with idle gaps around the 10 s inactivity limit; two testers overlapping inside slow handlers; twin run against the all-behaviours-on server for 'disabling one behaviour only removes that rule'.",
        note="Whether a request is parsable is taken from gallia's own request parser; sub-function service table is independent.",
        technique="deterministic simulation: virtual ECU under a simulated wall clock, seeded request histories; refinement check against an executable reference model",
        ref="4/C13",
    ),
    "C14": dict(
        level="exploration",
        text="Full stack (real UDSClient <-> line transports on the simulated network <-> real handle_client <-> RandomUDSServer), 1-3 concurrent clients, all segmentation modes; server task alive, session in model, every reply accepted by the client's matcher.",
        note="Benign network (latency < timeout); messages <= 4095 bytes.",
        technique="deterministic simulation: client/server stack over simulated streams with seeded segmentation and concurrent clients; invariant checking",
        ref="4/C14",
    ),
    "C15": dict(
        level="fault_enumeration",
        text="Command lifecycle under asyncio.Runner on the simulated loop: exit kind x lifecycle point x {artifacts, database, lock, hooks} x command kind, with SIGINT delivered through the real Runner handler at arbitrary virtual instants; exit code vs META.json vs run_meta vs log readability vs lock vs hook environment; database locked by another process when the run entry is completed.",
        note="Real /bin/sh hooks, real zstd, real sqlite3; QueueListener thread and aiosqlite proxy replaced by deterministic equivalents.",
        technique="deterministic simulation with crash-point injection: lifecycle grid with SIGINT/exception injection at virtual instants; cross-artifact consistency oracle",
        ref="4/C15",
    ),
    "C16": dict(
        level="exploration",
        text="The same seeds/arguments/histories are run in several fresh interpreters (different PYTHONHASHSEED, virtual epoch and pacing, wall clock stepping backwards, polluted global random state, import order, TZ, a sibling ECU with other arguments in the same process, the same ECU object set up a second time) and the model + transcript digests compared; model invariants (mandatory sessions/services, reachability, return path).",
        note="Security-access seeds are masked (deliberately fresh); gaps stay below the 10 s inactivity limit in every environment.",
        technique="deterministic simulation across process environments: identical seeded histories in fresh interpreters, digest comparison",
        ref="4/C16",
    ),
    "C17": dict(
        level="exploration",
        text="Real logging pipeline (QueueHandler, _ZstdFileHandler, zstd) with the consumer thread replaced by a stepped consumer whose lag the plan controls; producers log at planned instants, close at an arbitrary instant; all reader modes evaluated over the produced artifacts (.zst, .gz, plain with / without / mixed priority prefix, stdin as a pipe with short reads), incl. len() asked in the middle of a forward iteration.",
        note="Reader is a pure function of the file; it is evaluated as a history check over the simulated artifacts.",
        technique="deterministic simulation: stepped log consumer with seeded lag and close instant; history check of records read back in every reader mode",
        ref="4/C17",
    ),
    "C19": dict(
        level="fault_enumeration",
        text="Line transports (client half, server loop, both) on the simulated network: every single split offset, byte-by-byte, random multi-split, coalescing of many messages per segment, read timeouts placed between two segments of one line, reads without timeout, EOF at line boundary, a slow node (loop iterations that cost virtual time), a second tester on the same server loop, a peer that reads late; sequence written = sequence read.",
        note="Messages 1..4095 bytes; no byte corruption.",
        technique="deterministic simulation with fault injection: seeded segmentation/coalescing/timeout placement on simulated streams; sequence-equality oracle",
        ref="4/C19",
    ),
}


def main() -> None:
    checks = []
    na = [{"property_id": k, "reason": v} for k, v in sorted(NA.items())]
    for pid, c in sorted(CHECKS.items()):
        if not os.path.exists(os.path.join(VERIF, "simcheck", pid.lower() + ".py")):
            na.append({"property_id": pid, "reason": "simulated check designed (DESIGN " + c["ref"] + ") but not built yet; not claimed until it is"})
            continue
        checks.append(
            {
                "property_id": pid,
                "quick_cmd": f"{PY} -m simcheck {pid} --tier quick",
                "thorough_cmd": f"{PY} -m simcheck {pid} --tier thorough",
                "evidence_file": f"/verif/evidence/{pid}.json",
                "replay_cmd_template": f"{PY} -m simcheck replay {{path}}",
                "engine": "simkit",
                "level_claimed": {"category": c["level"], "text": c["text"], "design_ref": "DESIGN.md " + c["ref"]},
                "level_note": c["note"],
                "technique": c["technique"],
            }
        )
    man = {
        "version": 1,
        "setup_cmd": f"{PY} -m simkit.selfcheck",
        "hooks": {
            "guard": "GALLIA_VERIF_SIM",
            "enable": "n/a - no hooks in /repo: every seam is a module attribute patched from /verif at run time (asyncio.open_connection & co, server.time, aiosqlite.connect, gallia.log.QueueListener, datetime, logging.time)",
            "baseline_off_cmd": "cd /repo && /venv/bin/python -m pytest -ra -q -p no:cacheprovider --timeout=900 --continue-on-collection-errors",
            "source_commits": [],
            "add_only": True,
        },
        "engines": [
            {
                "name": "simkit",
                "path": "/verif/simkit",
                "serves_properties": [c["property_id"] for c in checks],
                "kind_free_text": "deterministic simulation kernel: virtual-time asyncio BaseEventLoop, simulated stream network with fault injection, simulated aiosqlite / log consumer, seeded plan search with ddmin minimisation and replay files",
            }
        ],
        "checks": checks,
        "not_applicable": sorted(na, key=lambda x: x["property_id"]),
        "notes": "All checks: exit 0 = held on everything explored; exit 1 + 'VIOLATION property=<id> replay=<path>'; exit 2 + 'HARNESS-ERROR' = the simulator itself failed (never a pass). VERIF_SEED / VERIF_TIER / VERIF_BUDGET_S / VERIF_JOBS honoured. GALLIA_SRC=<dir> selects another source tree (used by the sensitivity self-test).",
    }
    with open(os.path.join(VERIF, "MANIFEST.json"), "w") as f:
        json.dump(man, f, indent=1)
    print(f"claimed: {[c['property_id'] for c in checks]}")


if __name__ == "__main__":
    main()
