#!/venv/bin/python
"""Markdown table of a round of seeded changes: tools/seeded_table.py 8,9,10"""
import json, os, sys
os.chdir(os.path.join(os.path.dirname(os.path.abspath(__file__)), ".."))
suffixes = sys.argv[1].split(",")
print("| id | change | needs, to manifest (author's words, shortened) | first evaluation | violation signature now (first) |")
print("|---|---|---|---|---|")
def order(d):
    p, k = d.rsplit("-", 1)
    return (p, int(k))
for d in sorted((x for x in os.listdir("seeded") if os.path.isdir(f"seeded/{x}") and x.rsplit("-", 1)[-1] in suffixes), key=order):
    m = json.load(open(f"seeded/{d}/meta.json"))
    det = m["detection"][f"{m['property']}:quick"]
    sig = (det["signatures"] or ["-"])[0][:72]
    fe = m["first_evaluation"]
    fe = "detected" if fe == "detected" else f"**{fe} → check strengthened**" if m.get("strengthening") and not m["strengthening"].startswith("none") else f"**{fe}**"
    needs = m["needs_to_manifest"]
    needs = needs[:230] + ("…" if len(needs) > 230 else "")
    now = "`" + sig + "`" if det["detected"] else "not claimed for this property (below)"
    print(f"| {d} | {m['title']} | {needs.replace('|', '/')} | {fe} | {now} |")
