#!/venv/bin/python
"""Prepare a round of seeded-change jobs: one scratch worktree of /repo and one self-contained prompt per claimed property.

  tools/mk_round.py <dir under /tmp> [extra emphasis text file]

The prompt contains only the property record and the path of the worktree - nothing from /verif.
Afterwards: one fresh sub-agent per <dir>/<Cnn>.prompt.txt; import with tools/seeded.py import <dir>/<Cnn>/out/<k> <id> <Cnn>.
"""
import json, os, subprocess, sys

root = sys.argv[1]
extra = open(sys.argv[2]).read() if len(sys.argv) > 2 else ""
os.makedirs(root, exist_ok=True)
props = {}
for l in open("/verif/properties.jsonl"):
    p = json.loads(l)
    props[p["id"]] = p
tpl = '''You are helping to evaluate a verification tool for the Python project "gallia" (an automotive pentesting framework with its own UDS codec, DoIP/HSFZ/line transports, a virtual ECU and scanner commands).

Your scratch copy of the repository is the git worktree __ROOT__/__ID__ (a detached checkout). Work ONLY inside __ROOT__/__ID__. Do not modify /repo, and do not read or touch /verif at all. No network is available. Do NOT use `git stash` (the stash is shared between worktrees of other jobs) - use `git diff > file` / `git apply -R` / `git checkout -- src` instead.
- Python: /venv/bin/python. To run code against YOUR copy use PYTHONPATH=__ROOT__/__ID__/src (it takes precedence over the installed one).
- The repository's test suite (31 tests, all pass on the clean copy). Other jobs run the same suite concurrently and it binds fixed TCP ports, so run it in a private network namespace:
  unshare -rn sh -c 'ip link set lo up; cd __ROOT__/__ID__ && PYTHONPATH=__ROOT__/__ID__/src /venv/bin/python -m pytest -q -p no:cacheprovider --timeout=900'
  (if unshare is not permitted, run it plainly and simply re-run on an "Errno 98 address already in use" clash).

The property under study (also in __ROOT__/__ID__.property.json):

__PROPERTY__

TASK: produce THREE different, realistic source changes to files under src/gallia that each BREAK this property, while
 (a) the package still imports, and
 (b) all 31 existing tests still pass with the change.
"Realistic" = the kind of regression a maintainer could plausibly introduce: a refactoring slip, an off-by-one, a dropped await/lock/flush, a wrong branch order, a swapped argument, a too-lenient/too-strict comparison, an early return, a changed default. Small diffs (a few lines) are best.
Each change must be SUBTLE: it must need something specific to manifest - a particular interleaving or timing, a fault or crash at a particular point, a multi-step sequence of operations, an unusual input or configuration, or two cooperating sites that each look fine alone - NOT something that ordinary use would expose at once. Aim for changes that a reviewer skimming the diff would wave through. The three changes must differ in mechanism AND break different clauses of the property statement (read the statement sentence by sentence and pick three different guarantees). Avoid the single most obvious line for each clause; look at helpers, configuration plumbing, error paths, teardown/cleanup paths, rarely taken branches and interactions between two components named in the property's "anchors".
__EXTRA__
For each change write a demonstration: a small standalone Python program (no network; it may use asyncio with fake transports/streams, monkeypatching, temp files) that exits non-zero WITH the change and exits 0 WITHOUT it, and that terminates within a minute in both cases. Verify both directions yourself, and re-run the 31 tests with the change applied.

Deliverables for change k in {1,2,3}, in __ROOT__/__ID__/out/k/ :
 - patch.diff : output of `git -C __ROOT__/__ID__ diff -- src` with ONLY that change applied (must apply with `git apply` / `patch -p1` to a clean checkout)
 - demo.py    : run as `PYTHONPATH=<some>/src /venv/bin/python demo.py`
 - notes.md   : first line `# change k - <one-line title>`, then sections `## Change`, `## Clause broken`, `## What is needed for it to manifest`, `## Commands and results` (demo with/without the change, test suite with the change)
After saving each patch, restore the worktree (git -C __ROOT__/__ID__ checkout -- src) so the next change starts from a clean tree, and leave the worktree clean at the end (the out/ directory is untracked and stays).
Finish with a short summary (two lines per change).
'''
for pid in "C04 C05 C06 C07 C08 C09 C10 C11 C12 C13 C14 C15 C16 C17 C19".split():
    wt = os.path.join(root, pid)
    if not os.path.exists(wt):
        subprocess.run(["git", "-C", "/repo", "worktree", "add", "-q", "--detach", wt, "HEAD"], check=True)
    p = props[pid]
    prop = json.dumps({k: p[k] for k in ("id", "title", "statement", "quantifier", "why_tests_cant", "anchors")}, indent=1)
    open(os.path.join(root, f"{pid}.property.json"), "w").write(prop)
    open(os.path.join(root, f"{pid}.prompt.txt"), "w").write(
        tpl.replace("__ROOT__", root).replace("__ID__", pid).replace("__PROPERTY__", prop).replace("__EXTRA__", extra))
print("ok", root)
