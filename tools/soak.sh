#!/bin/bash
# usage: tools/soak.sh <hours> [first seed] [budget seconds per check and seed] [props...]
# Thorough tier of every check under successive VERIF_SEED values until the time is used up; prints one line per run
# and the violation / harness-error lines of every run that did not exit 0.
hours=${1:-1}; seed=${2:-1001}; b=${3:-120}; shift 3
props="${@:-C04 C05 C06 C07 C08 C09 C10 C11 C12 C13 C14 C15 C16 C17 C19}"
end=$(( $(date +%s) + $(printf '%.0f' "$(echo "$hours*3600" | bc)") ))
fail=0
while [ $(date +%s) -lt $end ]; do
  for p in $props; do
    [ $(date +%s) -lt $end ] || break
    out=$(VERIF_SEED=$seed VERIF_BUDGET_S=$b timeout $((b*4+900)) /venv/bin/python -m simcheck $p --tier thorough 2>&1); rc=$?
    echo "seed=$seed $p rc=$rc $(echo "$out" | grep '^\[.*runs=' | tail -1 | cut -c1-200)"
    if [ $rc -ne 0 ]; then fail=1; echo "$out" | grep -A3 "VIOLATION\|HARNESS" | cut -c1-400 | head -24; fi
  done
  seed=$((seed+1))
done
echo "soak done fail=$fail"
exit $fail
