#!/bin/bash
# usage: tools/hunt.sh <prop> <first seed> <last seed>  - quick tier under many seeds, prints only failures
p=$1; for s in $(seq $2 $3); do out=$(VERIF_SEED=$s timeout 1800 /venv/bin/python -m simcheck $p --tier quick 2>&1); rc=$?; if [ $rc -ne 0 ]; then echo "seed=$s rc=$rc"; echo "$out" | grep -A2 "VIOLATION\|HARNESS" | cut -c1-400 | head -12; fi; done; echo "hunt $p $2..$3 done"
