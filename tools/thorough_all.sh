#!/bin/bash
# usage: tools/thorough_all.sh [budget seconds per check] [props...]  - thorough tier of every check, one after the other
b=${1:-300}; shift
for p in ${@:-C04 C05 C06 C07 C08 C09 C10 C11 C12 C13 C14 C15 C16 C17 C19}; do
  VERIF_BUDGET_S=$b timeout $((b*4+600)) /venv/bin/python -m simcheck $p --tier thorough 2>&1 | grep -v "^\[.*tier=" | tail -6 | cut -c1-300
done
