#!/bin/bash
# usage: tools/round_eval.sh <round dir under /tmp> <first suffix> <props...>
# imports <dir>/<Cnn>/out/{1,2,3} as <Cnn>-<suffix+k-1>, confirms (serialised: the pinned tests bind fixed ports) and runs the quick tier against each
root=$1; base=$2; shift 2
cd "$(dirname "$0")/.."
for p in "$@"; do
  for k in 1 2 3; do
    id="$p-$((base+k-1))"
    [ -d "$root/$p/out/$k" ] || { echo "$id: no output"; continue; }
    tools/seeded.py import "$root/$p/out/$k" "$id" "$p" >/dev/null
    flock /tmp/confirm.lock tools/seeded.py confirm "$id" 2>&1 | tail -1
    tools/seeded.py detect "$id" quick 2>&1 | grep -v "^Exception ignored\|^Traceback\|^  File\|^RuntimeError\|^    " | tail -1
  done
done
