"""C15 - every run leaves a consistent exit code, META.json, log file and database record.

World D: command subclasses written as a user script would, run as the CLI does
(`asyncio.Runner` on the simulated loop), SIGINT through the real Runner handler at a planned
virtual instant, real /bin/sh hooks, real zstd log, real sqlite3 file behind SimSqlite.
"""

from __future__ import annotations

import asyncio
import datetime
import fcntl
import json
import os
import sqlite3
import sys
from pathlib import Path
from typing import Any

import zstandard

from simkit.cmdworld import CmdWorld
from simkit.harness import Check, bump, new_result, rng_for, violation
from simkit.net import Policy

from gallia.command.base import AsyncScript, AsyncScriptConfig, Scanner, ScannerConfig
from gallia.command.uds import UDSScanner, UDSScannerConfig
from gallia.log import PenlogRecord, get_logger
from gallia.services.uds.core import service
from gallia.services.uds.core.exception import MissingResponse
from gallia.services.uds.server import RandomUDSServer

logger = get_logger("gallia.simcheck.c15")


class SimScriptConfig(AsyncScriptConfig):
    pass


class SimScannerConfig(ScannerConfig):
    pass


class SimUDSScannerConfig(UDSScannerConfig):
    pass


class Behaviour:
    def __init__(self, plan: dict[str, Any], world: CmdWorld) -> None:
        self.plan = plan
        self.world = world
        self.markers: list[str] = []
        self.n = 0
        self.exited = False
        self.fired: list[float] = []

    async def at(self, cmd: Any, point: str, pos: str) -> None:
        plan = self.plan
        steps = plan["steps"].get(f"{point}-{pos}", 0)
        for _ in range(steps):
            m = f"marker-{self.n}-{point}-{pos}"
            if plan.get("odd_text") and self.n == 1:
                m += " file dump-\udcff\udcfe.bin"
            self.n += 1
            logger.info(m)
            self.markers.append(m)
            if plan["kind"] == "uds" and point == "main" and hasattr(cmd, "ecu"):
                await cmd.ecu.ping()
            await asyncio.sleep(plan["step_sleep"])
        ex = plan["exit"]
        if ex["kind"] != "return" and ex["point"] == point and ex["pos"] == pos and not self.exited:
            self.exited = True
            self.world.rec.rec("exit", ekind=ex["kind"], point=point, pos=pos)
            k = ex["kind"]
            if k == "exit0":
                sys.exit(0)
            if k == "exit1":
                sys.exit(1)
            if k == "exit3":
                sys.exit(3)
            if k == "exittext":
                sys.exit("fatal: something went wrong")
            if k == "conn":
                raise ConnectionResetError(104, "Connection reset by peer")
            if k == "uds":
                raise MissingResponse(service.TesterPresentRequest())
            if k == "runtime":
                raise RuntimeError("unexpected")
            if k == "kbd":
                raise KeyboardInterrupt()
            raise AssertionError(k)


class _Mixin:
    behaviour: Behaviour

    async def run(self) -> int:  # type: ignore[override]
        self.behaviour.world.rec.rec("run_begin")
        plan = self.behaviour.plan
        if plan.get("sigint_frac") is not None:
            # Ctrl-C at a fraction of the expected duration of setup+main+teardown (so that it usually lands inside run())
            est = sum(plan["steps"].values()) * plan["step_sleep"] + {"script": 0.002, "scanner": 0.01, "uds": 0.75}[plan["kind"]]
            w = self.behaviour.world
            w.sigint_at(w.loop.time() + plan["sigint_frac"] * est, self.behaviour.fired)
        try:
            return await super().run()  # type: ignore[misc]
        finally:
            self.behaviour.world.rec.rec("run_end")

    async def setup(self) -> None:
        await self.behaviour.at(self, "setup", "pre")
        await super().setup()  # type: ignore[misc]
        await self.behaviour.at(self, "setup", "post")

    async def main(self) -> None:
        await self.behaviour.at(self, "main", "pre")

    async def teardown(self) -> None:
        await self.behaviour.at(self, "teardown", "pre")
        ex = self.behaviour.plan["exit"]
        if ex["kind"] == "conn" and ex["point"] == "teardown" and ex["pos"] == "base" and getattr(self, "transport", None) is not None and not self.behaviour.exited:
            # the expected error comes from inside the base-class teardown: closing the transport fails (a transport whose
            # close() reports the broken connection)
            self.behaviour.exited = True
            self.behaviour.world.rec.rec("exit", ekind="conn", point="teardown", pos="base")
            real_close = self.transport.close

            async def failing_close() -> None:
                await real_close()
                raise ConnectionResetError(104, "Connection reset by peer")

            self.transport.close = failing_close  # type: ignore[method-assign]
        await super().teardown()  # type: ignore[misc]
        await self.behaviour.at(self, "teardown", "post")


class SimScript(_Mixin, AsyncScript):
    CONFIG_TYPE = SimScriptConfig
    SHORT_HELP = "sim"


class SimScanner(_Mixin, Scanner):
    CONFIG_TYPE = SimScannerConfig
    SHORT_HELP = "sim"


class SimUDSScanner(_Mixin, UDSScanner):
    CONFIG_TYPE = SimUDSScannerConfig
    SHORT_HELP = "sim"


EXIT_KINDS = ["return", "exit0", "exit1", "exit3", "exittext", "conn", "uds", "runtime", "kbd"]
POINTS = [("setup", "pre"), ("setup", "post"), ("main", "pre"), ("teardown", "pre"), ("teardown", "post")]
HOOKS = ["absent", "ok", "fail", "stderr", "slow", "signal"]


def expected_codes(kind: str, cmdkind: str) -> set[int]:
    if kind == "return" or kind == "exit0":
        return {0}
    if kind == "exit1":
        return {1}
    if kind == "exit3":
        return {3}
    if kind == "exittext":
        return {70, 1}
    if kind in ("conn", "uds"):
        return {74} if cmdkind in ("scanner", "uds") else {70}
    if kind == "runtime":
        return {70}
    if kind == "kbd":
        return {130}
    raise AssertionError(kind)


class C15(Check):
    prop = "C15"
    level = "fault_enumeration"
    rule = (
        "stratified grid: exit kind {return, sys.exit(0|1|3|text), ConnectionError, UDSException, RuntimeError, KeyboardInterrupt} x "
        "lifecycle point {setup before/after the base-class setup, main, teardown before/after the base-class teardown, ConnectionError also from inside it (closing the transport fails)} x command kind "
        "{plain script, scanner, UDS scanner} (every cell hit first), then seeded draws of {artifacts, database, lock, hooks} on/off, hook outcome "
        "{absent, ok, exit 3, stderr, runs for 1000 s}, a database whose teardown statement fails once, log records with non-ASCII / lone-surrogate text, log-consumer lag, database latency and a SIGINT at a virtual instant delivered through asyncio.Runner's handler. "
        "non-trivial = the run did not end by a plain return; distinct = (command kind, exit kind, point, resources, hook outcomes, where the SIGINT landed)."
    )
    assumptions = [
        "process exit code derived as the interpreter would: return value, SystemExit code, KeyboardInterrupt=130, other exception=1",
        "user-code exits are raised in setup/main/teardown; a SIGINT that lands outside run() (hooks, database open/close) is counted but not judged",
        "sys.exit(<text>) has no documented code: {70,1} accepted, records must still agree",
        "post-hook / lock release are judged only when entry_point() returns (after an escaping exception the process dies)",
    ]
    components = {
        "BaseCommand.entry_point, AsyncScript.run, Scanner/UDSScanner setup+teardown, run_hook, FlockMixin": "real",
        "DBHandler + sqlite3 engine": "real (aiosqlite thread proxy replaced by SimSqlite)",
        "zstd log handler, QueueHandler": "real (QueueListener thread replaced by stepped consumer)",
        "asyncio.Runner SIGINT handling": "real",
        "hooks": "real /bin/sh subprocesses",
        "ECU peer": "real RandomUDSServer + TCPUDSServerTransport on SimNet",
    }
    shrink_lists: list[str] = []
    quick_runs = 1600
    thorough_runs = 400000
    chunk = 25
    smoke_runs = 6

    def setup_process(self) -> None:
        pass

    def gen(self, seed: int, index: int, tier: str) -> dict[str, Any]:
        rng = rng_for(seed, "C15", index)
        grid = len(EXIT_KINDS) * len(POINTS) * 3
        plan: dict[str, Any] = {"prop": "C15", "index": index}
        if index < grid:
            k = index
            plan["kind"] = ["script", "scanner", "uds"][k % 3]
            k //= 3
            pt = POINTS[k % len(POINTS)]
            k //= len(POINTS)
            plan["exit"] = {"kind": EXIT_KINDS[k], "point": pt[0], "pos": pt[1]}
            plan["sigint"] = None
        else:
            plan["kind"] = rng.choice(["script", "scanner", "uds"])
            pt = rng.choice(POINTS)
            plan["exit"] = {"kind": rng.choice(EXIT_KINDS + ["return"] * 3), "point": pt[0], "pos": pt[1]}
            if plan["kind"] != "script" and rng.random() < 0.06:
                plan["exit"] = {"kind": "conn", "point": "teardown", "pos": "base"}
            r_ = rng.random()
            plan["sigint"] = round(rng.uniform(0.0, 1.4 if plan["kind"] == "uds" else 0.25), 4) if r_ < 0.2 else None
            plan["sigint_frac"] = round(rng.uniform(0.0, 1.15), 4) if 0.2 <= r_ < 0.6 else None
        plan["artifacts"] = rng.random() < 0.8
        plan["db"] = rng.random() < 0.7
        plan["lock"] = rng.random() < 0.5
        plan["hooks"] = rng.random() < 0.8
        plan["pre_hook"] = rng.choice(HOOKS)
        plan["post_hook"] = rng.choice(HOOKS)
        plan["steps"] = {f"{p}-{q}": rng.choice([0, 1, 1, 2, 3]) for p, q in POINTS}
        plan["step_sleep"] = rng.choice([0.0, 0.001, 0.01, 0.05])
        plan["pump"] = rng.choice(["eager", "lag", "never"])
        plan["db_lat"] = rng.choice([0.0001, 0.001, 0.01])
        plan["trace_log"] = rng.random() < 0.3
        plan["db_locked"] = rng.random() < 0.25  # one transient 'database is locked' on a row insert (another process reads the database)
        plan["db_close_error"] = rng.random() < 0.15
        # another process holds the database's write lock when the run entry is completed, for less than the handler's busy
        # timeout (sqlite's busy handler waits it out): the entry must still get its end time and exit code
        rng4 = rng_for(seed, "C15-db-busy", index)
        plan["db_busy_at_end"] = rng4.choice([0.2, 1.5, 6.0]) if rng4.random() < 0.2 else None
        # ... or the COMMIT that follows the UPDATE of the run entry fails once with "database is locked" (the transaction stays
        # open; the commit of the database close that follows makes it durable)
        plan["db_locked_commit_of_run_entry"] = plan["db_busy_at_end"] is None and not plan["db_close_error"] and rng4.random() < 0.15
        plan["odd_text"] = rng.random() < 0.3  # a marker message that is not valid UTF-8 (file name decoded with surrogateescape)
        plan["net_seed"] = rng.getrandbits(30)
        return plan

    def simplify(self, plan: dict[str, Any]) -> Any:
        import copy

        for key, val in (("lock", False), ("db", False), ("hooks", False), ("pre_hook", "absent"), ("post_hook", "absent"),
                         ("sigint", None), ("sigint_frac", None), ("db_locked", False), ("db_close_error", False), ("db_busy_at_end", None), ("db_locked_commit_of_run_entry", False), ("odd_text", False), ("pump", "eager"), ("artifacts", False), ("trace_log", False)):
            if plan.get(key) != val:
                p = copy.deepcopy(plan)
                p[key] = val
                yield p
        if plan["kind"] != "script":
            p = copy.deepcopy(plan)
            p["kind"] = "script"
            yield p
        for k, v in plan["steps"].items():
            if v:
                p = copy.deepcopy(plan)
                p["steps"][k] = 0
                yield p

    # -------------------------------------------------------------------------------------------
    def run(self, plan: dict[str, Any]) -> dict[str, Any]:
        res = new_result()
        world = CmdWorld(seed=plan["net_seed"])
        import subprocess

        import gallia.command.base as base_mod

        real_run = base_mod.run

        def hook_run(script: Any, *a: Any, **kw: Any) -> Any:
            # seam: the hook subprocess.  A hook marked SLOWHOOK takes 1000 s (of the hook's own time): a caller that
            # imposes a shorter limit gets TimeoutExpired, as subprocess.run would raise it
            if isinstance(script, str) and "SLOWHOOK" in script:
                bump(res["faults"], "hook_that_runs_for_1000_s")
                if kw.get("timeout") is not None and kw["timeout"] < 1000.0:
                    raise subprocess.TimeoutExpired(script, kw["timeout"])
            kw.pop("timeout", None)
            return real_run(script, *a, **kw)

        base_mod.run = hook_run  # type: ignore[assignment]
        try:
            self._run(plan, world, res)
        finally:
            base_mod.run = real_run  # type: ignore[assignment]
            world.uninstall()
            world.destroy()
        return res

    def _run(self, plan: dict[str, Any], world: CmdWorld, res: dict[str, Any]) -> None:
        tmp = Path(world.tmp)
        cmd_holder: dict[str, Any] = {}
        world.net.policy_factory = lambda i, d: Policy(seed=plan["net_seed"] + i * 2 + (d == "s2c"), segment="random")
        world.sql.latency = lambda c, n: plan["db_lat"]
        if plan.get("db_locked"):
            lock_state = {"n": 0}

            def db_fault(conn: Any, sql: str) -> Exception | None:
                if "INSERT INTO scan_result" in sql and lock_state["n"] == 0:
                    lock_state["n"] = 1
                    bump(res["faults"], "db_locked_on_insert")
                    return sqlite3.OperationalError("database is locked")
                return None

            world.sql.fault = db_fault
        if plan.get("db_locked_commit_of_run_entry") and plan.get("db"):
            meta_state: dict[str, Any] = {"armed": False, "fired": False}
            prev_fault2 = world.sql.fault

            def commit_fault(conn: Any, sql: str) -> Exception | None:
                if prev_fault2 is not None:
                    e_ = prev_fault2(conn, sql)
                    if e_ is not None:
                        return e_
                if sql.startswith("UPDATE run_meta SET end_time"):
                    meta_state["armed"] = True
                elif sql == "COMMIT" and meta_state["armed"] and not meta_state["fired"]:
                    meta_state["fired"] = True
                    bump(res["faults"], "database_locked_at_the_commit_of_the_run_entry")
                    return sqlite3.OperationalError("database is locked")
                return None

            world.sql.fault = commit_fault
        if plan.get("db_busy_at_end") and plan.get("db"):
            world.sql.lock_triggers.append({"prefix": "UPDATE run_meta SET end_time", "dur": plan["db_busy_at_end"]})
        if plan.get("db_close_error"):
            # the final commit of the database close fails with an error that is NOT "database is locked"
            close_state: dict[str, Any] = {"fired": False}
            prev_fault = world.sql.fault

            def close_fault(conn: Any, sql: str) -> Exception | None:
                if prev_fault is not None:
                    e_ = prev_fault(conn, sql)
                    if e_ is not None:
                        return e_
                h_ = getattr(cmd_holder.get("cmd"), "db_handler", None)
                # the commit disconnect() issues after the writer task is gone (its rows are all written by then)
                if sql == "COMMIT" and not close_state["fired"] and h_ is not None and h_.meta is not None and h_._executor_task is None and h_._execute_queue is None:
                    close_state["fired"] = True
                    bump(res["faults"], "database_error_at_the_final_commit")
                    return sqlite3.DatabaseError("database disk image is malformed")
                return None

            world.sql.fault = close_fault
        world.install()
        kw: dict[str, Any] = {"trace_log": plan["trace_log"], "hooks": plan["hooks"]}
        if plan["artifacts"]:
            kw["artifacts_base"] = tmp / "art"
        if plan["db"]:
            kw["db"] = tmp / "db.sqlite"
        if plan["lock"]:
            kw["lock_file"] = tmp / "lock"

        def hook(which: str, mode: str) -> str | None:
            if mode == "absent":
                return None
            script = f"env > {tmp}/{which}.env"
            if mode == "fail":
                script += "; exit 3"
            if mode == "stderr":
                script += "; echo oops >&2; echo out"
            if mode == "slow":
                script += "; : SLOWHOOK"
            if mode == "signal":
                script += "; kill -TERM $$"  # the hook's shell dies by a signal (negative return code)
            return script

        kw["pre_hook"] = hook("pre", plan["pre_hook"])
        kw["post_hook"] = hook("post", plan["post_hook"])
        kind = plan["kind"]
        if kind == "script":
            cfg: Any = SimScriptConfig(**kw)
            cmd: Any = SimScript(cfg)
        elif kind == "scanner":
            cfg = SimScannerConfig(target="tcp-lines://sim:1", dumpcap=False, **kw)
            cmd = SimScanner(cfg)
        else:
            cfg = SimUDSScannerConfig(target="tcp-lines://sim:1", dumpcap=False, tester_present_interval=0.2, **kw)
            cmd = SimUDSScanner(cfg)
        beh = Behaviour(plan, world)
        cmd.behaviour = beh
        cmd_holder["cmd"] = cmd
        fired: list[float] = []
        if plan["pump"] == "eager":
            world.start_pump(0.0005, None)
        elif plan["pump"] == "lag":
            world.start_pump(0.05, 3)
        else:
            world.pumps.rate = 0.0

        async def main() -> int:
            if kind != "script":
                srv = RandomUDSServer(3)
                await world.start_vecu(srv, "tcp://sim:1")
            if plan["sigint"] is not None:
                world.sigint_at(world.loop.time() + plan["sigint"], fired)
            world.rec.rec("entry")
            try:
                return await cmd.entry_point()
            finally:
                world.rec.rec("entry_end")

        out = world.run_cli(main, vcap=300.0)
        world.sql.close_all()
        ev = world.rec.jsonable()
        res["trace"] = ev
        res["vtime"] = out["vtime"]
        res["steps"] = out["steps"]

        # ---- where did things happen
        seq = {k: None for k in ("run_begin", "run_end", "SIGINT", "exit")}
        for e in ev:
            if e[3] in seq and seq[e[3]] is None:
                seq[e[3]] = e[0]
        sig_in_run = (
            seq["SIGINT"] is not None
            and seq["run_begin"] is not None
            and seq["run_begin"] < seq["SIGINT"]
            and (seq["run_end"] is None or seq["SIGINT"] < seq["run_end"])
        )
        sig_outside = seq["SIGINT"] is not None and not sig_in_run
        exit_done = seq["exit"] is not None
        ex = plan["exit"]
        where = "none"
        if sig_in_run:
            where = "in-run"
            bump(res["faults"], "sigint_in_run")
        elif sig_outside:
            where = "outside-run"
            bump(res["faults"], "sigint_outside_run")
        if exit_done:
            bump(res["faults"], "exit_" + ex["kind"])
        for w in ("pre", "post"):
            if plan["hooks"] and plan[f"{w}_hook"] in ("fail", "stderr", "signal"):
                bump(res["faults"], f"{w}_hook_{plan[f'{w}_hook']}")
        if world.sql.lock_waits:
            bump(res["faults"], "database_locked_by_another_process_when_the_run_entry_is_completed", world.sql.lock_waits)
        res["shape"] = (
            f"{kind}|{ex['kind'] if exit_done else 'return'}@{ex['point']}-{ex['pos'] if exit_done else ''}|sig:{where}|"
            f"a{int(plan['artifacts'])}d{int(plan['db'])}l{int(plan['lock'])}h{int(plan['hooks'])}{plan['pre_hook']}/{plan['post_hook']}|{plan['pump']}|{out['kind']}"
        )
        res["nontrivial"] = exit_done or seq["SIGINT"] is not None or (plan["hooks"] and "fail" in (plan["pre_hook"], plan["post_hook"]))

        if out["kind"] == "hung":
            violation(res, "C15/liveness", f"C15/liveness:{kind}", f"command never finished: {out['exc']!r}; pending: {out['pending']}")
            return
        if sig_outside:
            bump(res["probes"], "sigint_outside_run_not_judged")
            return

        code = out["exit"]
        sig = f"{kind}:{ex['kind'] if exit_done else 'return'}@{ex['point'] if exit_done else '-'}"
        # (1) exit code mapping
        allowed: set[int] = set()
        if exit_done:
            allowed |= expected_codes(ex["kind"], kind)
        else:
            allowed |= {0}
        if sig_in_run:
            # a cancellation and a user-code exit may replace each other (finally blocks): both codes are legitimate
            allowed = {130} | (expected_codes(ex["kind"], kind) if exit_done else set())
        if code not in allowed:
            cause = out["exc"]
            violation(res, "C15/exit-code", f"C15/exit-code:{sig}:sig={where}:got={code}:{type(cause).__name__ if cause else out['kind']}",
                      f"process exit code {code} ({out['kind']}: {cause!r}), expected one of {sorted(allowed)}")
        returned = out["kind"] == "return"

        # (2) META.json
        metas = list((tmp / "art").rglob("META.json")) if plan["artifacts"] else []
        meta = None
        if plan["artifacts"]:
            if len(metas) != 1:
                violation(res, "C15/meta", f"C15/meta-missing:{sig}:sig={where}", f"{len(metas)} META.json files after the run (exit {code})")
            else:
                try:
                    meta = json.loads(metas[0].read_text())
                except Exception as e:  # noqa: BLE001
                    violation(res, "C15/meta", f"C15/meta-unparsable:{sig}", f"META.json does not parse: {e!r}")
            if meta is not None:
                if meta.get("exit_code") != code:
                    violation(res, "C15/meta", f"C15/meta-exit-code:{sig}:sig={where}:meta={meta.get('exit_code')}:proc={code}",
                              f"META.json exit_code {meta.get('exit_code')} but the process exit code is {code}")
                try:
                    st = datetime.datetime.fromisoformat(meta["start_time"])
                    en = datetime.datetime.fromisoformat(meta["end_time"])
                    if not st <= en:
                        violation(res, "C15/meta", f"C15/meta-times:{sig}", f"start_time {st} > end_time {en}")
                except Exception as e:  # noqa: BLE001
                    violation(res, "C15/meta", f"C15/meta-times:{sig}", f"start/end time unusable: {e!r} ({meta.get('start_time')!r}, {meta.get('end_time')!r})")
                try:
                    again = type(cfg)(**meta["config"])
                    if again.model_dump_json() != cfg.model_dump_json():
                        violation(res, "C15/meta", f"C15/meta-config:{kind}", "config re-created from META.json differs from the original")
                except Exception as e:  # noqa: BLE001
                    violation(res, "C15/meta", f"C15/meta-config:{kind}", f"config cannot be re-created from META.json: {e!r}")

        # (3) log file
        if plan["artifacts"]:
            logs = list((tmp / "art").rglob("log.json.zst"))
            if len(logs) != 1:
                violation(res, "C15/log", f"C15/log-missing:{sig}", f"{len(logs)} log files")
            else:
                try:
                    raw = zstandard.ZstdDecompressor().stream_reader(logs[0].open("rb")).read()
                    datas = []
                    for line in raw.splitlines():
                        r = PenlogRecord.parse_json(line)
                        datas.append(r.data)
                    if plan["hooks"] and plan["pre_hook"] in ("fail", "signal") and not any("pre-hook failed" in d for d in datas):
                        violation(res, "C15/hook", f"C15/hook-failure-not-reported:pre:{plan['pre_hook']}",
                                  f"the pre-hook {'exited 3' if plan['pre_hook'] == 'fail' else 'was killed by a signal'} but the log holds no record reporting it")
                    it = iter(datas)
                    missing = [m for m in beh.markers if not any(d == m for d in it)]
                    if missing:
                        violation(res, "C15/log", f"C15/log-records-missing:{sig}:sig={where}:pump={plan['pump']}",
                                  f"{len(missing)} of {len(beh.markers)} marker records missing from the closed log (first: {missing[0]})")
                except Exception as e:  # noqa: BLE001
                    violation(res, "C15/log", f"C15/log-unreadable:{sig}:sig={where}:{type(e).__name__}", f"log cannot be read completely: {e!r}")

        # (4) lock
        if plan["lock"] and returned:
            fd = os.open(tmp / "lock", os.O_RDONLY)
            try:
                fcntl.flock(fd, fcntl.LOCK_EX | fcntl.LOCK_NB)
                fcntl.flock(fd, fcntl.LOCK_UN)
            except BlockingIOError:
                violation(res, "C15/lock", f"C15/lock-leaked:{sig}", "lock file still locked after entry_point() returned")
            finally:
                os.close(fd)

        # (5) run_meta
        if plan["db"]:
            try:
                c = sqlite3.connect(tmp / "db.sqlite")
                rows = c.execute("select end_time, exit_code from run_meta").fetchall()
                c.close()
            except Exception as e:  # noqa: BLE001
                rows = None
                violation(res, "C15/run-meta", f"C15/run-meta-unreadable:{sig}", f"database unreadable: {e!r}")
            if rows is not None:
                if len(rows) != 1:
                    violation(res, "C15/run-meta", f"C15/run-meta-rows:{sig}:sig={where}", f"{len(rows)} run_meta rows")
                else:
                    end_time, ec = rows[0]
                    if end_time is None or ec is None:
                        violation(res, "C15/run-meta", f"C15/run-meta-incomplete:{kind}:sig={where}:{ex['kind'] if exit_done else 'return'}",
                                  f"run_meta row has end_time={end_time} exit_code={ec} after the run ended with exit code {code}")
                    elif ec != code:
                        violation(res, "C15/run-meta", f"C15/run-meta-exit-code:{sig}:sig={where}:db={ec}:proc={code}",
                                  f"run_meta.exit_code {ec} but the process exit code is {code}")

        # (6) hooks
        def read_env(which: str) -> dict[str, str] | None:
            p = tmp / f"{which}.env"
            if not p.exists():
                return None
            env = {}
            for line in p.read_text().splitlines():
                if "=" in line:
                    k, _, v = line.partition("=")
                    env[k] = v
            return env

        pre_env = read_env("pre")
        post_env = read_env("post")
        if not plan["hooks"]:
            if pre_env is not None or post_env is not None:
                violation(res, "C15/hook", "C15/hook-ran-although-disabled", "a hook ran although hooks are disabled")
        else:
            if plan["pre_hook"] != "absent":
                if pre_env is None:
                    violation(res, "C15/hook", f"C15/pre-hook-not-run:{plan['pre_hook']}", "pre-hook did not run")
                else:
                    if pre_env.get("GALLIA_HOOK") != "pre" or "GALLIA_INVOCATION" not in pre_env or "GALLIA_ARTIFACTS_DIR" not in pre_env:
                        violation(res, "C15/hook", "C15/pre-hook-env", f"pre-hook environment incomplete: { {k: v for k, v in pre_env.items() if k.startswith('GALLIA')} }")
                    if seq["run_begin"] is None:
                        violation(res, "C15/hook", f"C15/hook-aborted-run:pre:{plan['pre_hook']}", "the run did not happen after the pre-hook")
            if plan["post_hook"] != "absent" and returned:
                if post_env is None:
                    violation(res, "C15/hook", f"C15/post-hook-not-run:{plan['post_hook']}", "post-hook did not run although entry_point() returned")
                else:
                    ok = post_env.get("GALLIA_HOOK") == "post" and "GALLIA_META" in post_env and "GALLIA_EXIT_CODE" in post_env
                    if not ok:
                        violation(res, "C15/hook", "C15/post-hook-env", "post-hook environment incomplete")
                    else:
                        try:
                            pm = json.loads(post_env["GALLIA_META"])
                            if pm.get("exit_code") != code or post_env["GALLIA_EXIT_CODE"] != str(code):
                                violation(res, "C15/hook", f"C15/post-hook-exit-code:{sig}", f"post-hook saw exit code {post_env['GALLIA_EXIT_CODE']} / META {pm.get('exit_code')}, process exit code {code}")
                        except Exception as e:  # noqa: BLE001
                            violation(res, "C15/hook", "C15/post-hook-env", f"GALLIA_META unparsable: {e!r}")


def make() -> Check:
    return C15()
