"""Model ECUs built on gallia's own UDSServer default-response chain (so the replies are gallia's)."""

from __future__ import annotations

import asyncio
from typing import Any

from gallia.services.uds.core import service
from gallia.services.uds.core.constants import UDSErrorCodes, UDSIsoServices
from gallia.services.uds.server import RandomUDSServer, UDSServer


class Monitor:
    """ECU-side log of what arrived, in which session."""

    def __init__(self) -> None:
        self.requests: list[tuple[int, bytes]] = []  # (session before the request, pdu)

    def saw(self, session: int, pdu: bytes) -> None:
        self.requests.append((session, bytes(pdu)))


class GraphECU(UDSServer):
    """Arbitrary session-transition graph: services[s][DSC] = successors(s)."""

    def __init__(self, graph: dict[int, list[int]], offer_reset: bool = True, refuse_nrc: int | None = None) -> None:
        super().__init__()
        self.graph = {int(s): sorted(int(t) for t in ts) for s, ts in graph.items()}
        self.offer_reset = offer_reset
        # the response code this ECU refuses a session change with (None: 0x7E / 0x12 as gallia's own server tells them apart)
        self.refuse_nrc = refuse_nrc
        # session changes (from, to) that are answered busyRepeatRequest the first time they are requested
        self.busy_once: set[tuple[int, int]] = set()
        self.busy_fired = 0
        # the ECU acknowledges ECUReset and reboots this many seconds later (0: at once, as gallia's own virtual ECU does);
        # until then it goes on answering from the session it was in
        self.reset_delay = 0.0
        self.late_resets = 0
        # session ids whose DiagnosticSessionControl request this ECU does not answer at all (and does not act upon)
        self.silent: set[int] = set()
        self.silent_fired = 0
        self.monitor = Monitor()
        self._services: dict[int, dict[UDSIsoServices, list[int] | None]] = {}
        for s, ts in self.graph.items():
            sv: dict[UDSIsoServices, list[int] | None] = {
                UDSIsoServices.DiagnosticSessionControl: list(ts),
                UDSIsoServices.TesterPresent: [0],
            }
            if offer_reset:
                sv[UDSIsoServices.EcuReset] = [1]
            self._services[s] = sv

    @property
    def supported_services(self) -> dict[int, dict[UDSIsoServices, list[int] | None]]:
        return self._services

    async def respond(self, request: service.UDSRequest) -> service.UDSResponse | None:
        before = self.state.session
        self.monitor.saw(before, request.pdu)
        if request.pdu[:1] == b"\x10" and len(request.pdu) == 2 and (before, request.pdu[1] & 0x7F) in self.busy_once:
            self.busy_once.discard((before, request.pdu[1] & 0x7F))
            self.busy_fired += 1
            resp: Any = service.NegativeResponse(0x10, UDSErrorCodes(0x21))
            if hasattr(self, "replies"):
                self.replies.append((before, bytes(request.pdu), resp.pdu))
            return resp
        if request.pdu[:1] == b"\x10" and len(request.pdu) == 2 and (request.pdu[1] & 0x7F) in self.silent:
            self.silent_fired += 1
            if hasattr(self, "replies"):
                self.replies.append((before, bytes(request.pdu), None))
            return None
        resp = await super().respond(request)
        if (self.refuse_nrc is not None and request.pdu[:1] == b"\x10" and len(request.pdu) == 2 and isinstance(resp, service.NegativeResponse)
                and int(resp.response_code) in (0x12, 0x7E)):
            resp = service.NegativeResponse(0x10, UDSErrorCodes(self.refuse_nrc))
        if hasattr(self, "replies"):
            self.replies.append((before, bytes(request.pdu), resp.pdu if resp is not None else None))
        return resp

    async def respond_after_default(self, request: service.UDSRequest) -> service.UDSResponse | None:
        if isinstance(request, service.ECUResetRequest):
            return service.ECUResetResponse(request.reset_type)
        return None

    async def update_state(self, request: service.UDSRequest, response: service.UDSResponse) -> None:
        if self.reset_delay and isinstance(response, service.ECUResetResponse):
            asyncio.get_running_loop().call_later(self.reset_delay, self._late_reset)
            return
        await super().update_state(request, response)

    def _late_reset(self) -> None:
        self.late_resets += 1
        self.state.reset()


class _Junk:
    """Bytes an ECU puts on the wire that are no answer to the request (only `.pdu` is used by the server loop)."""

    def __init__(self, pdu: bytes) -> None:
        self.pdu = pdu

    def __repr__(self) -> str:
        return f"junk({self.pdu.hex()})"


class ModelECU(RandomUDSServer):
    """RandomUDSServer with an explicitly given services table (identifier-level answers stay gallia's stateful_rng answers)."""

    def __init__(self, seed: int, services: dict[int, dict[int, list[int] | None]], params: dict[str, Any] | None = None) -> None:
        super().__init__(seed, RandomUDSServer.RandomnessParameters(**(params or {})))
        def key(k: Any) -> Any:
            try:
                return UDSIsoServices(int(k))
            except ValueError:
                return int(k)  # vendor specific service id

        self._table = {int(s): {key(k): (list(v) if v is not None else None) for k, v in sv.items()} for s, sv in services.items()}
        self.monitor = Monitor()
        self.replies: list[tuple[int, bytes, bytes | None]] = []
        # model dimension "which response code": (session, sid) -> NRC an implemented service answers every request with
        self.quirks: dict[tuple[int, int], int] = {}
        # request PDUs answered busyRepeatRequest the first k times they are seen (then normally)
        self.busy_first: dict[bytes, int] = {}
        # (session, sid of a service the ECU does NOT implement there) -> bytes it answers with instead of a proper negative
        # response: a reply that belongs to no request (other service / truncated)
        self.garble: dict[tuple[int, int], bytes] = {}
        # the ECU falls back to the default session on its own (session timer) right after it answered its k-th
        # serviceNotSupported in a non-default session, for every k in this set
        self.spont_drop: set[int] = set()
        self._sns_in_session = 0
        self.spont_fired = 0
        # the ECU falls back to the default session on its own (session timer) right after it answered its k-th
        # serviceNotSupported in a non-default session, k in this set
        self.spont_drop: set[int] = set()
        self._sns_in_session = 0
        self.spont_fired = 0
        # the ECU acknowledges ECUReset and reboots this many seconds later (0: at once)
        self.reset_delay = 0.0
        self.late_resets = 0

    async def update_state(self, request: service.UDSRequest, response: service.UDSResponse) -> None:
        if self.reset_delay and isinstance(response, service.ECUResetResponse):
            asyncio.get_running_loop().call_later(self.reset_delay, self._late_reset)
            return
        await super().update_state(request, response)

    def _late_reset(self) -> None:
        self.late_resets += 1
        self.state.reset()

    def randomize(self) -> None:
        self.services = {s: dict(sv) for s, sv in self._table.items()}

    async def setup(self) -> None:
        # RandomUDSServer.setup() only logs the table (and assumes enum keys); the model is given
        self.randomize()

    async def respond(self, request: service.UDSRequest) -> service.UDSResponse | None:
        before = self.state.session
        self.monitor.saw(before, request.pdu)
        sid = request.pdu[0] if request.pdu else -1
        nrc = self.quirks.get((before, sid))
        left = self.busy_first.get(bytes(request.pdu), 0)
        if (before, sid) in self.garble and not any(int(k) == sid for k in self.services.get(before, {})):
            resp = _Junk(self.garble[(before, sid)])  # type: ignore[assignment]
        elif left > 0:
            self.busy_first[bytes(request.pdu)] = left - 1
            resp: service.UDSResponse | None = service.NegativeResponse(sid, UDSErrorCodes(0x21))
        elif nrc is not None and any(int(k) == sid for k in self.services.get(before, {})):
            resp = service.NegativeResponse(sid, UDSErrorCodes(nrc))
        else:
            resp = await super().respond(request)
        if hasattr(self, "replies"):
            self.replies.append((before, bytes(request.pdu), resp.pdu if resp is not None else None))
        if self.spont_drop and before != 1 and resp is not None and bytes(resp.pdu[:1]) == b"\x7f" and len(resp.pdu) == 3 and resp.pdu[2] == 0x11:
            self._sns_in_session += 1
            if self._sns_in_session in self.spont_drop:
                self.state.reset()
                self.spont_fired += 1
        return resp
