"""C13 - the virtual ECU answers by the ISO 14229-1 default response rules.

Real RandomUDSServer behind the real UDSServerTransport.handle_request (wall-clock seam),
a share of the runs through the whole stack (tcp-lines client <-> SimNet <-> handle_client,
two client connections).  Oracle: small executable model of the rules, operation by operation.
"""

from __future__ import annotations

import asyncio
from typing import Any

import gallia.services.uds.server as server_mod
from simkit.clock import EPOCH
from simkit.harness import Check, bump, new_result, rng_for, violation
from simkit.loop import sim_run
from simkit.net import Policy, SimNet
from simkit.world import Recorder, Seams, quiet_logging, seed_unseeded_rng

from gallia.services.uds.core import service
from gallia.services.uds.core.constants import UDSIsoServices
from gallia.services.uds.server import RandomUDSServer, TCPUDSServerTransport, UDSServer, UDSServerTransport
from gallia.transports import TargetURI
from gallia.transports.tcp import TCPLinesTransport

# independent table of services that carry a sub-function byte (ISO 14229-1, as far as gallia implements them)
SUBFUNC = {0x10, 0x11, 0x19, 0x27, 0x28, 0x2C, 0x31, 0x3E, 0x85}
SWITCHES = [
    "default_response_if_service_not_supported",
    "default_response_if_missing_sub_function",
    "default_response_if_sub_function_not_supported",
    "default_response_if_incorrect_format",
    "default_response_if_session_change",
    "default_response_if_session_read",
    "default_response_if_tester_present",
    "default_response_if_none",
    "default_response_if_suppress",
]
HANDLED_BY_RNG_SERVER = {0x11, 0x27, 0x31, 0x22, 0x2E, 0x2F, 0x14, 0x19}


def model_reply(services: dict[int, dict[int, Any]], session: int, sw: dict[str, bool], pdu: bytes, parsable: bool) -> tuple[str, bytes | None]:
    """("exact", bytes) for rules 1-4, else ("delegated", None)."""
    sid = pdu[0]
    cur = services[session]
    if sw["default_response_if_service_not_supported"] and sid not in cur:
        known = any(sid in s for s in services.values())
        return "exact", bytes([0x7F, sid, 0x7F if known else 0x11])
    if sw["default_response_if_missing_sub_function"] and sid in SUBFUNC and len(pdu) < 2:
        return "exact", bytes([0x7F, sid, 0x13])
    if sw["default_response_if_sub_function_not_supported"] and sid in SUBFUNC and sid != 0x31 and len(pdu) >= 2:
        sub = pdu[1] & 0x7F
        active = sid in cur and cur[sid] is not None and sub in cur[sid]
        other = any(s != session and sid in sv and sv[sid] is not None and sub in sv[sid] for s, sv in services.items())
        if not active:
            return "exact", bytes([0x7F, sid, 0x7E if other else 0x12])
    if sw["default_response_if_incorrect_format"] and not parsable:
        return "exact", bytes([0x7F, sid, 0x13])
    return "delegated", None


def _transcript(plan: dict[str, Any], sw: dict[str, bool]) -> list[tuple[bytes, bytes | None, tuple[int, Any], int] | str]:
    """The plan's history against a fresh server with the given switches (direct mode, same clock, same source of fresh seeds):
    per op (request, reply, server state afterwards, session before)."""
    seams = Seams()
    out_: list[Any] = []

    async def main(loop: Any) -> Any:
        seams.set(server_mod, "time", lambda: EPOCH + loop.time())
        seed_unseeded_rng(seams, plan["net_seed"])
        try:
            server = RandomUDSServer(plan["ecu_seed"], RandomUDSServer.RandomnessParameters(**plan["params"]), UDSServer.Behavior(**sw))
            await server.setup()
        except Exception:  # noqa: BLE001
            return None
        st = UDSServerTransport(server, TargetURI("tcp://h:1"))
        last_seed: bytes | None = None
        for op in plan["ops"]:
            gap = op.get("gap", 0) or 0
            if gap:
                await asyncio.sleep(gap)
            if "dyn" in op:
                key = last_seed if last_seed is not None else b"\x00"
                if op["wrong"]:
                    key = bytes([key[0] ^ 0xFF]) + key[1:] if key else b"\x01"
                pdu = bytes([0x27, op["sub"] | (0x80 if op["suppress"] else 0)]) + key
            else:
                pdu = bytes.fromhex(op["pdu"])
            before = server.state.session
            try:
                reply, _ = await st.handle_request(pdu)
            except Exception as e:  # noqa: BLE001
                out_.append(f"raised {type(e).__name__}")
                break
            out_.append((pdu, reply, (server.state.session, server.state.security_access_level), before))
            if reply is not None and len(reply) >= 2 and reply[0] == 0x67 and reply[1] % 2 == 1:
                last_seed = reply[2:]
        return None

    try:
        sim_run(main, vcap=20000.0, stepcap=3_000_000)
    finally:
        seams.restore()
    return out_


def _touches(off: list[str], services: dict[int, dict[int, Any]], session: int, pdu: bytes) -> bool:
    """Could one of the switched-off behaviours have had a say in the all-on server's answer to this request?  (Over-approximation:
    a True only ends the comparison of the twin runs.)"""
    all_on = {s_: True for s_ in SWITCHES}
    try:
        parsable = not isinstance(service.UDSRequest.parse_dynamic(pdu), service.RawRequest)
    except Exception:  # noqa: BLE001
        parsable = False
    if session not in services:
        return True
    kind, exact = model_reply(services, session, all_on, pdu, parsable)
    sid = pdu[0]
    if kind == "exact":
        # one of the four negative-response rules answered: any of them being off may matter (first match wins)
        return any(o in off for o in ("default_response_if_service_not_supported", "default_response_if_missing_sub_function",
                                      "default_response_if_sub_function_not_supported", "default_response_if_incorrect_format"))
    if "default_response_if_session_change" in off and sid == 0x10:
        return True
    if "default_response_if_session_read" in off and pdu[:1] == b"\x22" and b"\xf1\x86" in pdu:
        return True
    if "default_response_if_tester_present" in off and sid == 0x3E:
        return True
    if "default_response_if_suppress" in off and sid in SUBFUNC and len(pdu) >= 2 and pdu[1] & 0x80:
        return True
    if "default_response_if_none" in off:
        return True  # whether the handler answers at all is not known from outside
    return False


def gen_history(rng: Any, services: dict[int, dict[int, Any]], n: int) -> list[dict[str, Any]]:
    sessions = sorted(services)
    all_sids = sorted({sid for sv in services.values() for sid in sv}) or [0x10]
    ops: list[dict[str, Any]] = []
    for _ in range(n):
        r = rng.random()
        op: dict[str, Any] = {}
        if r < 0.16:
            sid = rng.randrange(256)
            op["pdu"] = bytes([sid] + [rng.getrandbits(8) for _ in range(rng.choice([0, 0, 1, 1, 2, 3]))]).hex()
        elif r < 0.34:
            sid = rng.choice(all_sids)
            tail = [rng.getrandbits(8) for _ in range(rng.choice([0, 1, 1, 2, 3, 5]))]
            op["pdu"] = bytes([sid] + tail).hex()
        elif r < 0.50:
            sub = rng.choice(sessions + sessions + [rng.randrange(1, 0x7F)])
            if rng.random() < 0.25:
                sub |= 0x80
            op["pdu"] = bytes([0x10, sub]).hex()
        elif r < 0.60:
            cands = [(s, sub) for s, sv in services.items() for sid, subs in sv.items() if sid == 0x27 and subs for sub in subs if sub % 2 == 1]
            if cands and rng.random() < 0.8:
                _, sub = rng.choice(cands)
            else:
                sub = rng.choice([1, 3, 0x11, 0x61])
            op["pdu"] = bytes([0x27, sub | (0x80 if rng.random() < 0.15 else 0)]).hex()
            ops.append(op)
            k = rng.random()
            ops.append({"dyn": "sendkey", "sub": sub + 1, "wrong": k < 0.25, "suppress": rng.random() < 0.2, "gap": rng.choice([0, 0, 0, 0.5, 11.0, 12.5])})
            continue
        elif r < 0.66:
            op["pdu"] = bytes([0x11, rng.choice([1, 1, 2, 3, 4, 0x81, 0x7F])]).hex()
        elif r < 0.72:
            op["pdu"] = rng.choice(["3e00", "3e80", "3e", "3e01", "22f186", "22f18600", "22f1"])
        elif r < 0.80:
            sid = rng.choice([s for s in all_sids if s in SUBFUNC] or [0x10])
            subs = sorted({sub for sv in services.values() if sid in sv and sv[sid] for sub in sv[sid]})
            sub = rng.choice(subs) if subs and rng.random() < 0.7 else rng.randrange(0x80)
            if rng.random() < 0.3:
                sub |= 0x80
            tail = [rng.getrandbits(8) for _ in range(rng.choice([0, 0, 1, 2, 3]))]
            op["pdu"] = bytes([sid, sub] + tail).hex()
        else:
            did = rng.choice([0xF190, 0xF186, 0x0000, 0xFFFF, rng.randrange(0x10000)])
            kind = rng.choice(["rdbi", "wdbi", "rc", "iocbi", "cdtc", "rdtc", "rdbi2"])
            if kind == "rdbi":
                op["pdu"] = bytes([0x22, did >> 8, did & 0xFF]).hex()
            elif kind == "rdbi2":
                op["pdu"] = bytes([0x22, did >> 8, did & 0xFF, 0xF1, 0x90]).hex()
            elif kind == "wdbi":
                op["pdu"] = bytes([0x2E, did >> 8, did & 0xFF] + [rng.getrandbits(8) for _ in range(rng.choice([1, 2, 8]))]).hex()
            elif kind == "rc":
                op["pdu"] = bytes([0x31, rng.choice([1, 2, 3, 0x81, 4]), did >> 8, did & 0xFF] + [rng.getrandbits(8) for _ in range(rng.choice([0, 2]))]).hex()
            elif kind == "iocbi":
                op["pdu"] = bytes([0x2F, did >> 8, did & 0xFF, rng.choice([0, 1, 2, 3])] + [rng.getrandbits(8) for _ in range(rng.choice([0, 1]))]).hex()
            elif kind == "cdtc":
                op["pdu"] = rng.choice(["14ffffff", "14000000", "14ffff"])
            else:
                op["pdu"] = rng.choice(["1902ff", "190200", "1901ff", "1902", "19", "1982ff", "1981ff", "198200"])
        g = rng.random()
        op["gap"] = 0 if g < 0.6 else rng.choice([0.1, 2.0, 9.0]) if g < 0.92 else rng.choice([11.0, 30.0])
        ops.append(op)
    return ops


def make_params(rng: Any) -> dict[str, Any]:
    p: dict[str, Any] = {}
    style = rng.random()
    if style < 0.3:
        return p  # defaults
    p["p_session"] = rng.choice([0.0, 0.05, 0.2, 1.0, 3.0])
    p["p_service"] = rng.choice([0.0, 0.2, 0.5, 1.0])
    p["p_sub_function"] = rng.choice([0.0, 0.05, 0.3, 1.0])
    p["p_identifier"] = rng.choice([0.0, 0.005, 0.5, 1.0])
    p["p_correct_payload_format"] = rng.choice([0.0, 0.1, 1.0])
    if rng.random() < 0.4:
        p["mandatory_sessions"] = rng.choice([[1], [1, 2, 3], [1, 0x60], []])
        p["optional_sessions"] = rng.choice([[], [2, 3, 4], list(range(2, 0x20))])
    if rng.random() < 0.4:
        p["mandatory_services"] = rng.choice([[0x10], [0x10, 0x27, 0x22, 0x3E, 0x11, 0x31], [0x10, 0x19, 0x2E, 0x2F, 0x14], []])
    if rng.random() < 0.2:
        p["optional_services"] = rng.choice([[], [0x22, 0x27, 0x3E], [0x85, 0x28, 0x2C, 0x31]])
    return p


class C13(Check):
    prop = "C13"
    level = "exploration"
    rule = (
        "seeds x randomness parameters (probabilities 0..1(+), mandatory/optional session and service lists incl. empty) x subsets of the nine behaviour "
        "switches (stratified: all on, each single one off, then random subsets) x histories of 1-80 requests (every 25th plan an exhaustive sweep: every service id 0x00-0xFF with 0-3 / 5 payload bytes, or every sub-function byte 0x00-0xFF of one sub-function service, after a state-changing prefix): random sid + 0-3 bytes, every known sid with "
        "short payloads, session changes offered / not offered, seed/key pairs (right and wrong key), resets, suppress-bit variants, structured valid requests, "
        "idle gaps below / above the 10 s inactivity limit; 20 % of runs through the full tcp-lines stack with two client connections. "
        "non-trivial = at least one of rules 1-4 fired or a state change happened; distinct = sequence of (rule that decided, reply class, state change)."
    )
    assumptions = [
        "whether a request is parsable is taken from gallia's own request parser (codec = C01, not decided here)",
        "sub-function services: independent table {10,11,19,27,28,2C,31,3E,85}",
        "an idle gap > 10 s may or may not reset the state (both accepted); a gap < 10 s must not",
        "with a rule switched off the model skips it; the server must then answer or stay silent without raising",
    ]
    components = {
        "RandomUDSServer, UDSServer default-response chain, UDSServerTransport.handle_request": "real",
        "TCPUDSServerTransport.handle_client + TCPLinesTransport (full-stack share)": "real on SimNet",
        "wall clock of the server": "stub: epoch + virtual loop time",
    }
    shrink_lists = ["ops"]
    quick_runs = 10000
    thorough_runs = 600000
    chunk = 100

    def setup_process(self) -> None:
        quiet_logging()

    def gen(self, seed: int, index: int, tier: str) -> dict[str, Any]:
        rng = rng_for(seed, "C13", index)
        plan: dict[str, Any] = {"prop": "C13", "index": index}
        plan["ecu_seed"] = rng.choice([0, 1, 3, 2**63, rng.getrandbits(32), rng.getrandbits(32)])
        plan["params"] = make_params(rng)
        sw = {s: True for s in SWITCHES}
        if 1 <= index <= len(SWITCHES):
            sw[SWITCHES[index - 1]] = False
        elif index > len(SWITCHES) and rng.random() < 0.5:
            for s in SWITCHES:
                if rng.random() < 0.25:
                    sw[s] = False
        plan["switches"] = sw
        plan["stack"] = rng.random() < 0.2
        plan["net_seed"] = rng.getrandbits(30)
        # overlap stratum: two testers on one ECU whose handlers take time, so that a request of the second tester is served
        # while one of the first is suspended in its handler (all default behaviours on; drawn below, after the history)
        plan["overlap"] = index > len(SWITCHES) and index % 25 != 10 and rng.random() < 0.12
        if plan["overlap"]:
            plan["stack"] = True
            plan["switches"] = sw = {s: True for s in SWITCHES}
        srv = RandomUDSServer(plan["ecu_seed"], RandomUDSServer.RandomnessParameters(**plan["params"]))
        try:
            srv.randomize()
            services = {s: {int(k): v for k, v in sv.items()} for s, sv in srv.services.items()}
        except Exception:  # noqa: BLE001
            services = {1: {0x10: [1]}}
        plan["ops"] = gen_history(rng, services, rng.choice([1, 5, 20, 40, 80] if tier == "quick" else [20, 80, 150, 300]))
        if plan["overlap"]:
            sessions_ = sorted(services)
            for op in plan["ops"]:
                if "dyn" in op or rng.random() < 0.5:
                    continue
                a_sid = rng.choice([0x22, 0x22, 0x2E, 0x31, 0x31, 0x19, 0x14, 0x2F])
                a = {0x22: lambda: bytes([0x22]) + rng.choice([b"\xf1\x90", bytes(rng.getrandbits(8) for _ in range(2))]),
                     0x2E: lambda: bytes([0x2E, rng.getrandbits(8), rng.getrandbits(8)]) + bytes(rng.getrandbits(8) for _ in range(rng.choice([1, 4]))),
                     0x31: lambda: bytes([0x31, rng.choice([0x01, 0x81, 0x02, 0x83]), rng.getrandbits(8), rng.getrandbits(8)]),
                     0x19: lambda: bytes([0x19, rng.choice([0x02, 0x82, 0x0A, 0x8A])]) + (b"\xff" if rng.random() < 0.7 else b""),
                     0x14: lambda: bytes([0x14, 0xFF, 0xFF, 0xFF]),
                     0x2F: lambda: bytes([0x2F, rng.getrandbits(8), rng.getrandbits(8), 0x00])}[a_sid]()
                b = rng.choice([b"\x3e\x00", b"\x3e\x80", b"\x22\xf1\x86", b"\x11\x01", b"\x11\x81",
                                bytes([0x10, rng.choice(sessions_)]), bytes([0x10, rng.choice(sessions_) | 0x80]), bytes([0x10, rng.randrange(1, 0x7F)])])
                op.clear()
                op.update({"pdu": a.hex(), "gap": 0, "with": b.hex(), "delay": rng.choice([0.02, 0.05, 0.12])})
        # exhaustive sweeps (every 25th plan): after a short random prefix that may change the state, EVERY service id
        # 0x00-0xFF with a payload of 0-3 bytes, or every sub-function byte 0x00-0xFF of one sub-function service
        if index % 25 == 10:
            prefix = plan["ops"][: rng.choice([0, 3, 8])]
            k = (index // 25) % 8
            if k < 5:
                ln = k if k < 4 else 5
                fill = rng.choice([0x00, 0x01, 0xFF, rng.getrandbits(8)])
                sweep = [{"pdu": bytes([sid] + [fill] * ln).hex(), "gap": 0} for sid in range(256)]
            else:
                sid = rng.choice(sorted(SUBFUNC))
                tail = [rng.getrandbits(8) for _ in range(rng.choice([0, 0, 1, 2]))]
                sweep = [{"pdu": bytes([sid, sub] + tail).hex(), "gap": 0} for sub in range(256)]
            plan["ops"] = prefix + sweep
            plan["sweep"] = True
        return plan

    def simplify(self, plan: dict[str, Any]) -> Any:
        import copy

        if plan["stack"]:
            p = copy.deepcopy(plan)
            p["stack"] = False
            yield p
        for i, op in enumerate(plan["ops"]):
            if op.get("gap"):
                p = copy.deepcopy(plan)
                p["ops"][i]["gap"] = 0
                yield p
        if plan["params"]:
            p = copy.deepcopy(plan)
            p["params"] = {}
            yield p

    def run(self, plan: dict[str, Any]) -> dict[str, Any]:
        res = new_result()
        holder: dict[str, Any] = {}
        sw = plan["switches"]
        seams = Seams()

        async def main(loop: Any) -> Any:
            rec = Recorder(loop)
            holder["rec"] = rec
            seams.set(server_mod, "time", lambda: EPOCH + loop.time())
            seed_unseeded_rng(seams, plan["net_seed"])
            behavior = UDSServer.Behavior(**sw)
            slow: dict[bytes, float] = {}

            class SlowECU(RandomUDSServer):
                """gallia's random ECU whose handlers need time for the requests named in `slow` (what a database-backed or a
                user-written virtual ECU does on every request): the only place where two requests can overlap."""

                async def respond_after_default(self, request: Any) -> Any:
                    d_ = slow.get(bytes(request.pdu))
                    if d_:
                        rec.rec("handler_suspended", pdu=bytes(request.pdu))
                        await asyncio.sleep(d_)
                    return await super().respond_after_default(request)

            try:
                server = (SlowECU if plan.get("overlap") else RandomUDSServer)(plan["ecu_seed"], RandomUDSServer.RandomnessParameters(**plan["params"]), behavior)
                await server.setup()
            except Exception as e:  # noqa: BLE001
                rec.rec("setup_failed", error=type(e).__name__)
                holder["setup_failed"] = repr(e)
                return None
            services = {s: {int(k): (list(map(int, v)) if v is not None else None) for k, v in sv.items()} for s, sv in server.services.items()}
            holder["services"] = services
            st = UDSServerTransport(server, TargetURI("tcp://h:1")) if not plan["stack"] else TCPUDSServerTransport(server, TargetURI("tcp://h:1"))
            clients: list[Any] = []
            if plan["stack"]:
                net = SimNet(loop, seed=plan["net_seed"])
                net.policy_factory = lambda i, d: Policy(seed=plan["net_seed"] + 2 * i + (d == "s2c"), segment="random")
                net.install()
                holder["net"] = net
                t = loop.create_task(st.run())
                loop.keep.append(t)
                await asyncio.sleep(0)
                clients = [await TCPLinesTransport.connect("tcp-lines://h:1"), await TCPLinesTransport.connect("tcp-lines://h:1")]
            m_session, m_level = 1, None
            last_seed: bytes | None = None
            last_active = loop.time()
            for n, op in enumerate(plan["ops"]):
                gap = op.get("gap", 0) or 0
                if gap:
                    await asyncio.sleep(gap)
                if "dyn" in op:
                    key = last_seed if last_seed is not None else b"\x00"
                    if op["wrong"]:
                        key = bytes([key[0] ^ 0xFF]) + key[1:] if key else b"\x01"
                    pdu = bytes([0x27, op["sub"] | (0x80 if op["suppress"] else 0)]) + key
                else:
                    pdu = bytes.fromhex(op["pdu"])
                idle = loop.time() - last_active
                rec.rec("req", n=n, pdu=pdu)
                pair = None
                if op.get("with") and plan["stack"]:
                    try:
                        a_parsable = not isinstance(service.UDSRequest.parse_dynamic(pdu), service.RawRequest)
                    except Exception:  # noqa: BLE001
                        a_parsable = False
                    if idle <= 10.0 and model_reply(services, m_session, sw, pdu, a_parsable)[0] == "delegated":
                        # tester 0 sends A, whose handler takes `delay`; while it is suspended tester 1 sends B (judged below
                        # like any other request); A's own reply is read and judged afterwards
                        pair = {"a": pdu, "a_parsable": a_parsable, "session": m_session, "state": (m_session, m_level)}
                        slow[pdu] = op["delay"]
                        await clients[0].write(pdu)
                        await asyncio.sleep(0.008)
                        pdu = bytes.fromhex(op["with"])
                        rec.rec("req_overlapping", n=n, pdu=pdu)
                try:
                    if pair is not None:
                        await clients[1].write(pdu)
                        try:
                            reply = await clients[1].read(timeout=0.3)
                        except TimeoutError:
                            reply = None
                        if reply == b"":
                            raise ConnectionError("server closed the connection")
                    elif plan["stack"]:
                        c = clients[n % 2]
                        await c.write(pdu)
                        try:
                            reply: bytes | None = await c.read(timeout=0.3)
                        except TimeoutError:
                            reply = None
                        if reply == b"":
                            raise ConnectionError("server closed the connection")
                    else:
                        reply, _ = await st.handle_request(pdu)
                except Exception as e:  # noqa: BLE001
                    rec.rec("raised", n=n, error=type(e).__name__, msg=str(e)[:80])
                    which = "missing-sub-function-rule-off" if (len(pdu) < 2 and not sw["default_response_if_missing_sub_function"]) else "other"
                    violation(res, "C13/raised", f"C13/raised:{type(e).__name__}:{which}",
                              f"request {pdu.hex()} made the server raise {e!r} (switches off: {[s for s in SWITCHES if not sw[s]]})")
                    break
                last_active = loop.time()
                rec.rec("rep", n=n, pdu=reply)
                # ----- model
                try:
                    parsable = not isinstance(service.UDSRequest.parse_dynamic(pdu), service.RawRequest)
                except Exception:  # noqa: BLE001
                    parsable = False
                if idle > 10.0 + 1e-6:
                    bump(res["probes"], "idle_gap_over_limit")
                    # both {reset, unchanged} accepted: follow what the server did if it is one of the two
                    # (the request itself may change the state again, so decide on the pre-state via the reply below)
                    pre_states = [(1, None), (m_session, m_level)]
                else:
                    pre_states = [(m_session, m_level)]
                ok = False
                why = ""
                for ps, pl in pre_states:
                    kind, exact = model_reply(services, ps, sw, pdu, parsable)
                    v = self._check_reply(kind, exact, pdu, reply, sw, ps, parsable)
                    if v is not None:
                        why = v
                        continue
                    ns, nl = self._next_state(pdu, reply, ps, pl, sw, parsable)
                    cands = [(ns, nl)]
                    if reply is None and not sw["default_response_if_none"]:
                        cands.append((ps, pl))  # silent handler, no state change
                    got_state = (server.state.session, server.state.security_access_level)
                    if got_state in cands:
                        ok = True
                        if kind == "exact":
                            bump(res["probes"], f"rule_nrc_{exact[2]:02x}")  # type: ignore[index]
                            holder.setdefault("shape", []).append(f"x{exact[2]:02x}")  # type: ignore[index]
                        else:
                            holder.setdefault("shape", []).append("d" + ("-" if reply is None else "+" if reply[0] != 0x7F else "n"))
                        if got_state != (ps, pl):
                            holder.setdefault("shape", []).append("S")
                            bump(res["probes"], "state_change")
                        m_session, m_level = got_state
                        break
                    why = f"server state {got_state} after {pdu.hex()} -> {reply.hex() if reply else None}; model expects one of {cands}"
                if not ok:
                    rule = why.split(":")[0] if ":" in why else "state"
                    violation(res, "C13/model", f"C13/model:{rule}", f"op {n} in session {m_session:#x}: {why} (switches off: {[s for s in SWITCHES if not sw[s]]})")
                    break
                if server.state.session not in services:
                    if not sw["default_response_if_sub_function_not_supported"]:
                        # the user removed the rule that keeps the ECU inside its model: nothing further is promised
                        bump(res["probes"], "left_model_with_subfunction_rule_off")
                        break
                    violation(res, "C13/invariant", "C13/invariant:session-not-offered", f"server is in session {server.state.session:#x} which it does not offer")
                    break
                if reply is not None and len(reply) >= 2 and reply[0] == 0x67 and reply[1] % 2 == 1:
                    last_seed = reply[2:]
                if pair is not None:
                    # now A: its handler was suspended while B was served
                    suspended = any(e[3] == "handler_suspended" for e in rec.events[-12:])
                    try:
                        reply_a: bytes | None = await clients[0].read(timeout=0.5)
                    except TimeoutError:
                        reply_a = None
                    slow.pop(pair["a"], None)
                    last_active = loop.time()
                    rec.rec("rep_first", n=n, pdu=reply_a)
                    if reply_a == b"":
                        violation(res, "C13/raised", "C13/raised:connection-dropped:overlap", f"the server dropped the connection of the tester whose request {pair['a'].hex()} was being handled")
                        break
                    bump(res["probes"], "request_served_while_another_is_suspended_in_its_handler" if suspended else "pair_without_suspension")
                    v = self._check_reply("delegated", None, pair["a"], reply_a, sw, pair["session"], pair["a_parsable"])
                    if v is not None and not v.startswith("session-read"):
                        violation(res, "C13/model", f"C13/model:overlap:{v.split(':')[0]}",
                                  f"op {n}: {v} - its handler was suspended while {pdu.hex()} of a second tester was served (-> {reply.hex() if reply else None})")
                        break
                    # A does not change the state (it is no session change, reset or key): the state is what B left
                    got_state = (server.state.session, server.state.security_access_level)
                    if got_state != (m_session, m_level):
                        violation(res, "C13/model", "C13/model:overlap:state",
                                  f"op {n}: after {pair['a'].hex()} (handler suspended) and {pdu.hex()} -> {reply.hex() if reply else None} of a second tester the server state is {got_state}, "
                                  f"the positive replies imply {(m_session, m_level)} (state before the pair: {pair['state']})")
                        break
            for c in clients:
                await c.close()
            return None

        try:
            out = sim_run(main, vcap=20000.0, stepcap=3_000_000)
        finally:
            seams.restore()
            if "net" in holder:
                holder["net"].uninstall()
        rec = holder["rec"]
        res["trace"] = rec.jsonable()
        res["vtime"] = out.vtime
        res["steps"] = out.steps
        if out.hung:
            violation(res, "C13/liveness", f"C13/liveness:{out.kind}", f"run never finished: {out.pending}")
        elif out.kind == "exc":
            raise out.exc  # type: ignore[misc]
        # ---- "disabling one behaviour only removes that rule": twin run with every behaviour enabled (same ECU, same history,
        # same clock, same fresh seeds).  Until the first request in which a switched-off behaviour could have had a say, the two
        # servers must give the same answers and be in the same state - whatever else (e.g. the inactivity timer) is involved.
        off = [s_ for s_ in SWITCHES if not sw[s_]]
        if off and not plan["stack"] and not res["violations"] and "services" in holder:
            a_ = _transcript(plan, {s_: True for s_ in SWITCHES})
            b_ = _transcript(plan, sw)
            for n_, (x_, y_) in enumerate(zip(a_, b_)):
                if isinstance(x_, str) or isinstance(y_, str):
                    break
                # (the request may have been evaluated in the default session instead, if the inactivity timer fired first)
                if _touches(off, holder["services"], x_[3], x_[0]) or _touches(off, holder["services"], 1, x_[0]):
                    bump(res["probes"], "twin_runs_compared_up_to_the_first_request_of_a_disabled_rule")
                    break
                if x_[1:3] != y_[1:3]:
                    violation(res, "C13/only-that-rule", f"C13/only-that-rule:differs-before-the-rule-applies:{'+'.join(o_.replace('default_response_if_', '') for o_ in off)}"[:110],
                              f"op {n_} {x_[0].hex()}: with every behaviour enabled -> {x_[1].hex() if x_[1] else None}, state {x_[2]}; with {off} disabled -> {y_[1].hex() if y_[1] else None}, state {y_[2]} "
                              f"although none of the disabled rules applies to any request so far")
                    break
        shape = holder.get("shape", [])
        comp: list[str] = []
        for s in shape:
            if not comp or comp[-1] != s:
                comp.append(s)
        off = "".join("0" if not sw[s] else "1" for s in SWITCHES)
        res["shape"] = f"{off}|{'stack' if plan['stack'] else 'direct'}|" + "".join(comp[:40])
        if plan.get("sweep"):
            bump(res["probes"], "exhaustive_sweep_of_256_service_ids_or_sub_functions")
        res["nontrivial"] = any(s.startswith("x") or s == "S" for s in shape)
        for s in SWITCHES:
            if not sw[s]:
                bump(res["faults"], "off_" + s.replace("default_response_if_", ""))
        return res

    def _check_reply(self, kind: str, exact: bytes | None, pdu: bytes, reply: bytes | None, sw: dict[str, bool], session: int, parsable: bool) -> str | None:
        sid = pdu[0]
        suppress_bit = sid in SUBFUNC and len(pdu) >= 2 and bool(pdu[1] & 0x80) and parsable
        if kind == "exact":
            if reply != exact:
                return f"nrc{exact[2]:02x}: request {pdu.hex()} must be answered {exact.hex()} (negative replies are never suppressed), got {reply.hex() if reply else None}"  # type: ignore[index]
            return None
        # delegated
        if reply is None:
            if suppress_bit and sw["default_response_if_suppress"]:
                return None
            if not sw["default_response_if_none"]:
                return None
            return f"silence: request {pdu.hex()} got no reply although the suppress bit is not set"
        if reply[0] == 0x7F:
            if len(reply) != 3 or reply[1] != sid:
                return f"envelope: negative reply {reply.hex()} does not name service {sid:#x}"
            return None
        if reply[0] != ((sid + 0x40) & 0xFF):
            return f"envelope: reply {reply.hex()} is not a response of service {sid:#x}"
        if suppress_bit and sw["default_response_if_suppress"]:
            return f"suppress: positive reply {reply.hex()} although the suppress bit is set"
        if sid == 0x3E and sw["default_response_if_tester_present"] and pdu == b"\x3e\x00" and reply != b"\x7e\x00":
            return f"tester-present: {reply.hex()}"
        if sid == 0x10 and sw["default_response_if_session_change"] and parsable and reply[:2] != bytes([0x50, pdu[1] & 0x7F]):
            return f"session-change: {reply.hex()}"
        if pdu == b"\x22\xf1\x86" and sw["default_response_if_session_read"] and reply != bytes([0x62, 0xF1, 0x86, session]):
            return f"session-read: {reply.hex()} in session {session:#x}"
        return None

    def _next_state(self, pdu: bytes, reply: bytes | None, session: int, level: int | None, sw: dict[str, bool], parsable: bool) -> tuple[int, int | None]:
        sid = pdu[0]
        positive = reply is not None and reply[0] != 0x7F
        suppressed = reply is None and sid in SUBFUNC and len(pdu) >= 2 and bool(pdu[1] & 0x80) and parsable and sw["default_response_if_suppress"]
        if not (positive or suppressed):
            return session, level
        sub = pdu[1] & 0x7F if len(pdu) >= 2 else None
        if sid == 0x10 and sub is not None:
            return sub, None
        if sid == 0x11:
            return 1, None
        if sid == 0x27 and sub is not None and sub % 2 == 0:
            return session, sub - 1
        return session, level


def make() -> Check:
    return C13()
