"""C17 - log records written by a run are read back exactly, in any navigation mode.

Write path simulated: real add_zst_log_handler / QueueHandler / _ZstdFileHandler / zstandard with the
QueueListener thread replaced by a stepped consumer (planned lag), 1-4 producer tasks, close at an
arbitrary instant.  The reader (PenlogReader, hr) is evaluated as a history check over the produced
artifacts in every navigation mode and container.
"""

from __future__ import annotations

import asyncio
import contextlib
import datetime
import gzip
import io
import json
import logging
import sys
from pathlib import Path
from typing import Any

import zstandard

import gallia.cli.hr as hr_mod
import gallia.log as glog
from simkit.cmdworld import CmdWorld
from simkit.harness import Check, bump, new_result, rng_for, violation

LEVELS = [5, 10, 20, 25, 30, 40, 50]
TEXTS = [
    "plain ascii",
    "",
    "line one\nline two",
    "cr\rlf\r\n",
    "nul\x00byte",
    "ctrl\x01\x02\x1b[31m\x7f",
    "astral \U0001f600 \U00010348",
    "umlaut äöü ß €   sep",
    "<5>looks like a prefix",
    '{"looks": "like json", "version": 2}',
    "percent %s literal %d",
    "tab\tand \"quotes\" and \\backslash",
    "lone surrogate \ud800 here",
    "trailing newline\n",
]


class _RawSegments(io.RawIOBase):
    """The read end of a pipe whose writer delivers the stream in segments: a read returns what has arrived, never more
    than up to the next segment boundary (the classic short read); end of file after the last segment."""

    def __init__(self, data: bytes, cuts: list[int]) -> None:
        super().__init__()
        self._data = data
        self._bounds = sorted({c for c in cuts if 0 < c < len(data)}) + [len(data)]
        self._pos = 0

    def readable(self) -> bool:
        return True

    def readinto(self, b: Any) -> int:
        if self._pos >= len(self._data):
            return 0
        bound = next(x for x in self._bounds if x > self._pos)
        n = min(len(b), bound - self._pos)
        b[:n] = self._data[self._pos : self._pos + n]
        self._pos += n
        return n


class SimPipePath:
    """What PenlogReader sees of a log arriving on stdin / a fifo (the seam is its `path` argument)."""

    suffix = ""
    name = "stdin"

    def __init__(self, data: bytes, cuts: list[int]) -> None:
        self.data = data
        self.cuts = cuts

    def is_file(self) -> bool:
        return False

    def is_fifo(self) -> bool:
        return True

    def exists(self) -> bool:
        return True

    def open(self, mode: str = "rb", buffering: int = -1, **kw: Any) -> Any:
        raw = _RawSegments(self.data, self.cuts)
        return raw if buffering == 0 else io.BufferedReader(raw)

    def __str__(self) -> str:
        return "/dev/stdin"

    def __fspath__(self) -> str:
        return "/dev/stdin"


def gen_records(rng: Any, n: int) -> list[dict[str, Any]]:
    out = []
    for i in range(n):
        kind = rng.random()
        if kind < 0.75:
            text = rng.choice(TEXTS)
        elif kind < 0.8:
            text = "L" * rng.choice([65536, 70000, 200000]) + " end"
        else:
            text = "".join(chr(rng.choice([rng.randrange(32, 127), rng.randrange(0x80, 0x800), rng.randrange(0x1F300, 0x1F6FF), 10])) for _ in range(rng.choice([1, 5, 40])))
        r: dict[str, Any] = {"i": i, "text": f"#{i} " + text, "level": rng.choice(LEVELS), "producer": rng.randrange(4), "dt": rng.choice([0.0, 0.0, 0.0001, 0.01, 0.3])}
        t = rng.random()
        if t < 0.3:
            r["tags"] = rng.choice([[], ["result"], ["a", "b"], ["write", "uds"], ["ünï"]])
        if rng.random() < 0.1:
            r["text"] = f"#{i} value=%s n=%d"
            r["args"] = ["str\narg", i]
        if rng.random() < 0.05:
            r["exc"] = True
        out.append(r)
    return out


class C17(Check):
    prop = "C17"
    level = "exploration"
    rule = (
        "record sequences of length 0-300 (texts: ASCII, empty, newlines, CR, NUL, control characters, astral code points, lone surrogate, lines >= 64 KiB, "
        "%-args, '<5>'-looking and JSON-looking text; all seven levels; tags absent / empty / several; exception traces) logged by 1-4 producer tasks at planned "
        "instants x file level DEBUG/TRACE x consumer lag {keeps up, k records per tick, nothing until close} x close instant anywhere (immediately, with records "
        "still queued, with producers still logging afterwards) x reader modes {forward, len, reverse, offset k in {0,1,n-1,-1,-k,-n,-(n+3)}, priority threshold "
        "by every level, hr --head/--tail/-r with n in {0,1,n-1,n,n+1,100}} x containers {.zst, .gz, plain, plain without the '<prio>' prefix, plain with the prefix on a drawn subset of lines, stdin as a pipe that delivers the plain stream in segments (short reads; hr FILE '-')}. non-trivial = records were still queued when the "
        "handler was closed, or records were logged after the close; distinct = (lag mode, close position class, length class, text classes)."
    )
    assumptions = [
        "each navigation call uses a fresh PenlogReader (what hr does); one of them asks len() while its forward iteration is suspended",
        "timestamps are compared at microsecond resolution; exception records carry the traceback inside the message text (QueueHandler.prepare merges it)",
        "the reader is a pure function of the file: it is evaluated as a history check over the artifacts the simulated runs produced, nothing more is claimed for it",
    ]
    components = {
        "add_zst_log_handler / remove_zst_log_handler, QueueHandler, _ZstdFileHandler, _JSONFormatter, zstandard": "real",
        "QueueListener consumer thread": "replaced by SteppedQueueListener (dequeue/handle real, scheduling by the plan)",
        "PenlogReader, PenlogRecord, hr._main": "real",
        "stdin / fifo": "SimPipePath: pipe semantics (a read returns at most what one writer segment delivered), handed to the reader through its path argument",
    }
    shrink_lists = ["records"]
    quick_runs = 1000
    thorough_runs = 100000
    chunk = 20
    smoke_runs = 5

    def setup_process(self) -> None:
        pass

    def gen(self, seed: int, index: int, tier: str) -> dict[str, Any]:
        rng = rng_for(seed, "C17", index)
        plan: dict[str, Any] = {"prop": "C17", "index": index}
        n = rng.choice([0, 1, 2, 5, 5, 20, 60, 300] if tier == "quick" else [0, 1, 5, 60, 300, 1500]) if index >= 8 else [0, 1, 2, 3, 5, 8, 13, 21][index]
        plan["records"] = gen_records(rng, n)
        plan["trace_level"] = rng.random() < 0.5
        plan["pump"] = rng.choice(["eager", "lag", "lag", "never"])
        plan["batch"] = rng.choice([1, 3, 10])
        plan["tick"] = rng.choice([0.001, 0.05, 0.5])
        total = sum(r["dt"] for r in plan["records"]) / max(1, len({r["producer"] for r in plan["records"]}) or 1)
        plan["close_at"] = rng.choice([0.0, total * 0.3, total * 0.9, total + 0.001, total + 1.0])
        plan["modes_seed"] = rng.getrandbits(30)
        # the local UTC offset while the run logs differs from the one gallia.log captured when it was imported
        # (a daylight-saving switch, a laptop carried across time zones): timestamps must still denote the same instants
        plan["local_tz"] = rng.choice([None, None, None, "Europe/Berlin", "America/St_Johns", "Asia/Kolkata", "Pacific/Chatham"])
        plan["burst"] = 0
        # the log path exists already - a complete log of an earlier run, or a truncated one (own stream of draws); the file a run
        # leaves behind holds this run's records only
        plan["stale_file"] = rng_for(seed, "C17-stale", index).choice([None, None, None, None, None, None, "log", "log", "junk"])
        if index % 250 == 100:
            # a burst of many short records while the consumer gets no CPU (whatever is queued must still reach the file)
            plan["burst"] = rng.choice([9000, 12000, 20000])
            plan["records"] = []
            plan["pump"] = rng.choice(["never", "lag"])
            plan["close_at"] = 1.0
        return plan

    def simplify(self, plan: dict[str, Any]) -> Any:
        import copy

        if plan.get("burst", 0) > 1:
            p = copy.deepcopy(plan)
            p["burst"] = plan["burst"] // 2
            yield p

    def run(self, plan: dict[str, Any]) -> dict[str, Any]:
        res = new_result()
        world = CmdWorld(seed=1, log_level=1)
        import os
        import time as _t

        old_tz = os.environ.get("TZ")
        try:
            if plan.get("local_tz"):
                os.environ["TZ"] = plan["local_tz"]
                _t.tzset()
                bump(res["faults"], "local_utc_offset_changed_since_import")
            self._run(plan, world, res)
        finally:
            if plan.get("local_tz"):
                if old_tz is None:
                    os.environ.pop("TZ", None)
                else:
                    os.environ["TZ"] = old_tz
                _t.tzset()
            world.uninstall()
            world.destroy()
        return res

    def _run(self, plan: dict[str, Any], world: CmdWorld, res: dict[str, Any]) -> None:
        tmp = Path(world.tmp)
        world.install()
        if plan.get("burst"):
            plan = dict(plan, records=[{"i": i, "text": f"#{i} burst", "level": LEVELS[i % len(LEVELS)], "producer": i % 2, "dt": 0.0} for i in range(plan["burst"])])
        logpath = tmp / "log.json.zst"
        if plan.get("stale_file"):
            import zstandard as _z

            old_lines = b"".join(b'<6>{"module": "old", "data": "#%d record of an earlier run", "host": "h", "datetime": "2020-01-01T00:00:0%d.000000+00:00"}\n' % (900000 + k, k) for k in range(3))
            blob = _z.ZstdCompressor().compress(old_lines)
            logpath.write_bytes(blob if plan["stale_file"] == "log" else blob[: len(blob) // 2])
            bump(res["faults"], "log_path_holds_an_earlier_log" if plan["stale_file"] == "log" else "log_path_holds_a_truncated_file")
        file_level = glog.Loglevel.TRACE if plan["trace_level"] else glog.Loglevel.DEBUG
        logger = glog.get_logger("gallia.simcheck.c17")
        model: list[dict[str, Any]] = []
        holder: dict[str, Any] = {"attached": False, "after_close": 0, "queued_at_close": 0}
        loop = world.loop

        async def producer(k: int, recs: list[dict[str, Any]]) -> None:
            for r in recs:
                if r["dt"]:
                    await asyncio.sleep(r["dt"])
                else:
                    await asyncio.sleep(0)
                extra = {"tags": r["tags"]} if "tags" in r else None
                args = tuple(r.get("args", ()))
                exc_info = None
                if r.get("exc"):
                    try:
                        raise ValueError(f"boom {r['i']}")
                    except ValueError as e:
                        exc_info = e
                created = world.wall()
                logger.log(r["level"], r["text"], *args, extra=extra, exc_info=exc_info)
                if holder["attached"]:
                    if r["level"] >= file_level:
                        text = r["text"] % args if args else r["text"]
                        model.append({"i": r["i"], "data": text, "level": r["level"], "tags": r.get("tags"), "created": created, "exc": bool(r.get("exc"))})
                else:
                    holder["after_close"] += 1

        async def main() -> int:
            handler = glog.add_zst_log_handler("gallia", logpath, file_level)
            holder["attached"] = True
            if plan["pump"] == "eager":
                world.start_pump(0.0002, None)
            elif plan["pump"] == "lag":
                world.start_pump(plan["tick"], plan["batch"])
            else:
                world.pumps.rate = 0.0  # a consumer that got no CPU until it is joined
            by_prod: dict[int, list[dict[str, Any]]] = {}
            for r in plan["records"]:
                by_prod.setdefault(r["producer"], []).append(r)
            tasks = [loop.create_task(producer(k, recs)) for k, recs in sorted(by_prod.items())]

            async def closer() -> None:
                await asyncio.sleep(plan["close_at"])
                holder["queued_at_close"] = world.pumps.backlog()
                holder["attached"] = False
                glog.remove_zst_log_handler("gallia", handler)

            c = loop.create_task(closer())
            await asyncio.gather(c, *tasks)
            return 0

        out = world.run_cli(main, vcap=2000.0)
        res["vtime"] = out["vtime"]
        res["steps"] = out["steps"]
        if out["kind"] != "return":
            violation(res, "C17/write", f"C17/write:{out['kind']}:{type(out.get('exc')).__name__}", f"logging run failed: {out.get('exc')!r} {out.get('pending')}")
            return
        M = sorted(model, key=lambda m: (m["created"], m["i"]))
        # the producers run in one loop: creation order == sequence order; keep the logging order
        M = model
        res["trace"] = [[m["i"], m["level"], m["created"]] for m in M] + [plan["pump"], holder["queued_at_close"], holder["after_close"]]
        n = len(M)
        # ---- containers
        try:
            raw = zstandard.ZstdDecompressor().stream_reader(logpath.open("rb")).read()
        except Exception as e:  # noqa: BLE001
            violation(res, "C17/file", f"C17/file:undecodable:{type(e).__name__}:{plan['pump']}", f"the closed log cannot be decompressed completely: {e!r} (queued at close {holder['queued_at_close']})")
            return
        plain = tmp / "log.json"
        plain.write_bytes(raw)
        gz = tmp / "copy.json.gz"
        with gzip.open(gz, "wb") as f:
            f.write(raw)
        rng = rng_for(plan["modes_seed"], "modes")
        # the same records without the '<prio>' line prefix, and with the prefix on a drawn subset of the lines only
        lines = raw.splitlines(keepends=True)

        def strip_prefix(line: bytes) -> bytes:
            return line[line.index(b">") + 1 :] if line.startswith(b"<") else line

        noprefix = tmp / "noprefix.json"
        noprefix.write_bytes(b"".join(strip_prefix(l) for l in lines))
        mixed = tmp / "mixed.json"
        mixed.write_bytes(b"".join(strip_prefix(l) if rng.random() < 0.5 else l for l in lines))
        # the plain stream arriving on stdin, delivered by the writer in segments (pipe semantics: short reads)
        size = len(raw)
        cut_mode = rng.choice(["whole", "pipe-buffer", "random", "lines", "tiny-head"])
        if cut_mode == "whole" or size < 2:
            cuts: list[int] = []
        elif cut_mode == "pipe-buffer":
            cuts = list(range(65536, size, 65536)) or [size // 2]
        elif cut_mode == "random":
            cuts = sorted(rng.randrange(1, size) for _ in range(rng.choice([1, 2, 5])))
        elif cut_mode == "lines":
            acc, cuts = 0, []
            for l in lines[:-1]:
                acc += len(l)
                if rng.random() < 0.3:
                    cuts.append(acc)
            cuts = cuts or [len(lines[0])] if lines else []
        else:
            cuts = [1, min(size - 1, 7)]
        containers = [("zst", logpath), ("gz", gz), ("plain", plain), ("plain-without-prefix", noprefix), ("plain-mixed-prefix", mixed),
                      ("stdin-pipe", SimPipePath(raw, cuts))]
        tzinfo = glog.tz

        def key(rec: Any) -> tuple[Any, ...]:
            return (rec.data, int(rec.priority), tuple(rec.tags) if rec.tags is not None else None, rec.datetime)

        def mkey(m: dict[str, Any]) -> tuple[Any, ...]:
            return (m["data"], int(glog.PenlogPriority.from_level(m["level"])), tuple(m["tags"]) if m["tags"] is not None else None,
                    datetime.datetime.fromtimestamp(m["created"], tz=tzinfo))

        def same(rec: Any, m: dict[str, Any]) -> bool:
            a, b = key(rec), mkey(m)
            if m["exc"]:
                return a[0].startswith(b[0]) and "Traceback" in a[0] and f"boom {m['i']}" in a[0] and a[1:] == b[1:]
            return a == b

        def compare(got: list[Any], want: list[dict[str, Any]], what: str, cname: str) -> bool:
            if len(got) != len(want) or not all(same(g, w) for g, w in zip(got, want)):
                gi = [self._idx(g) for g in got]
                wi = [w["i"] for w in want]
                kind = "order" if sorted(gi) == sorted(wi) and gi != wi else "missing" if set(gi) < set(wi) else "duplicate" if len(gi) != len(set(gi)) else "content" if gi == wi else "other"
                violation(res, "C17/read", f"C17/read:{what}:{kind}", f"{cname} {what}: got record ids {gi[:12]}{'...' if len(gi) > 12 else ''} ({len(gi)}), expected {wi[:12]}{'...' if len(wi) > 12 else ''} ({len(wi)}); pump={plan['pump']} queued_at_close={holder['queued_at_close']}")
                return False
            return True

        def read(path: Path, what: str, cname: str, **kw: Any) -> list[Any] | None:
            try:
                with glog.PenlogReader(path) as rd:
                    return list(rd.records(**kw))
            except Exception as e:  # noqa: BLE001
                violation(res, "C17/read", f"C17/read:{what}:raised:{type(e).__name__}", f"{cname} {what} with {kw} on a log of {n} records raised {e!r}")
                return None

        for cname, path in containers:
            fwd = read(path, "forward", cname)
            if fwd is None:
                continue
            if not compare(fwd, M, "forward", cname):
                if cname == "zst":
                    break
                continue
            try:
                with glog.PenlogReader(path) as rd:
                    ln = len(rd)
                if ln != n:
                    violation(res, "C17/read", "C17/read:len", f"{cname}: len(reader) = {ln}, {n} records were written")
            except Exception as e:  # noqa: BLE001
                violation(res, "C17/read", f"C17/read:len:raised:{type(e).__name__}", f"{cname}: len(reader) raised {e!r}")
            if n >= 2:
                # a consumer that shows "record i of n": len() is asked while the forward generator is suspended after k records
                k_mid = rng.randrange(1, n)
                try:
                    with glog.PenlogReader(path) as rd:
                        it_ = rd.records()
                        got_mid = [next(it_) for _ in range(k_mid)]
                        ln_mid = len(rd)
                        got_mid += list(it_)
                    if compare(got_mid, M, "forward-with-len-midway", cname) and ln_mid != n:
                        violation(res, "C17/read", "C17/read:len", f"{cname}: len(reader) asked after {k_mid} records = {ln_mid}, {n} records were written")
                except Exception as e:  # noqa: BLE001
                    violation(res, "C17/read", f"C17/read:forward-with-len-midway:raised:{type(e).__name__}", f"{cname}: forward read with len() after {k_mid} of {n} records raised {e!r}")
            if plan.get("burst"):
                bump(res["probes"], "burst_of_records_behind_a_stalled_consumer")
                break  # completeness of the big file is the point here; navigation is covered by the other plans
            # priority thresholds
            for prio in glog.PenlogPriority:
                got = read(path, "priority-filter", cname, priority=prio)
                if got is not None:
                    compare(got, [m for m in M if int(glog.PenlogPriority.from_level(m["level"])) <= int(prio)], "priority-filter", cname)
            # reverse
            got = read(path, "reverse", cname, reverse=True)
            if got is not None:
                compare(got, list(reversed(M)), "reverse", cname)
            # offsets (forward)
            offs = sorted({0, 1, n - 1, -1, -2, -n, -(n + 3), rng.randrange(-n - 1, n + 1) if n else 0})
            for k in offs:
                if k > n:
                    continue
                got = read(path, f"offset", cname, offset=k)
                if got is None:
                    continue
                if k >= 0:
                    want = M[k:]
                else:
                    want = M[max(n + k, 0):]
                compare(got, want, "offset-negative" if k < 0 else "offset", cname)
            # hr
            for args_, want_fn in self._hr_cases(n, rng):
                self._hr(path, cname, args_, want_fn(M), res, same, n)
        res["shape"] = f"{plan['pump']}|n{min(n, 9) if n < 10 else 'big'}|q{min(holder['queued_at_close'], 3)}|a{min(holder['after_close'], 3)}|{'T' if plan['trace_level'] else 'D'}"
        res["nontrivial"] = holder["queued_at_close"] > 0 or holder["after_close"] > 0
        if holder["queued_at_close"]:
            bump(res["faults"], "records_queued_at_close", holder["queued_at_close"])
        if holder["after_close"]:
            bump(res["faults"], "records_logged_after_close", holder["after_close"])
        bump(res["faults"], "consumer_" + plan["pump"])
        if n == 0:
            bump(res["probes"], "empty_log")
        if any(len(m["data"]) >= 65536 for m in M):
            bump(res["probes"], "line_over_64k")

    @staticmethod
    def _idx(rec: Any) -> int:
        try:
            return int(rec.data.split(" ", 1)[0].lstrip("#"))
        except Exception:  # noqa: BLE001
            return -1

    def _hr_cases(self, n: int, rng: Any) -> list[tuple[list[str], Any]]:
        P = glog.PenlogPriority

        def flt(M: list[dict[str, Any]], prio: int) -> list[dict[str, Any]]:
            return [m for m in M if int(P.from_level(m["level"])) <= prio]

        cases: list[tuple[list[str], Any]] = []
        cases.append((["-p", "trace"], lambda M: flt(M, 8)))
        cases.append((["-p", "8", "-r"], lambda M: list(reversed(flt(M, 8)))))
        pname = rng.choice(["emergency", "alert", "critical", "error", "warning", "notice", "info", "debug", "trace"])
        pv = ["emergency", "alert", "critical", "error", "warning", "notice", "info", "debug", "trace"].index(pname)
        cases.append((["-p", pname], lambda M, pv=pv: flt(M, pv)))
        cases.append((["-p", str(pv), "-r"], lambda M, pv=pv: list(reversed(flt(M, pv)))))
        for k in sorted({0, 1, max(n - 1, 0), n, n + 1, 100}):
            cases.append((["-p", "trace", "--head", "-n", str(k)], lambda M, k=k: M[:k]))
            if k > 0:
                cases.append((["-p", "trace", "--tail", "-n", str(k)], lambda M, k=k: M[-k:] if k <= len(M) else list(M)))
        return cases

    def _hr(self, path: Path, cname: str, args: list[str], want: list[dict[str, Any]], res: dict[str, Any], same: Any, n: int) -> None:
        old_argv = sys.argv
        old_str = glog.PenlogRecord.__str__
        got: list[Any] = []

        def cap(self_: Any) -> str:
            got.append(self_)
            return ""

        glog.PenlogRecord.__str__ = cap  # type: ignore[method-assign]
        sys.argv = ["hr", "--color", "never"] + args + ["-" if isinstance(path, SimPipePath) else str(path)]
        real_path_cls = glog.Path
        if isinstance(path, SimPipePath):
            # hr FILE "-" makes the reader open Path("/dev/stdin"): hand it the simulated pipe there
            glog.Path = lambda p_, *a_: path if str(p_) == "/dev/stdin" else real_path_cls(p_, *a_)  # type: ignore[misc,assignment]
        mode = "tail" if "--tail" in args else "head" if "--head" in args else "reverse" if "-r" in args else "filter"
        try:
            with contextlib.redirect_stdout(io.StringIO()), contextlib.redirect_stderr(io.StringIO()):
                rc = hr_mod._main()
        except SystemExit as e:
            rc = e.code
        except Exception as e:  # noqa: BLE001
            size = "short-log" if "-n" in args and int(args[args.index("-n") + 1]) > n else "empty-log" if n == 0 else "log"
            violation(res, "C17/hr", f"C17/hr:{mode}:raised:{type(e).__name__}:{size}", f"hr {' '.join(args)} on a {cname} log of {n} records raised {e!r}")
            return
        finally:
            sys.argv = old_argv
            glog.Path = real_path_cls  # type: ignore[misc]
            glog.PenlogRecord.__str__ = old_str  # type: ignore[method-assign]
        if rc != 0:
            violation(res, "C17/hr", f"C17/hr:{mode}:exit-{rc}", f"hr {' '.join(args)} exited with {rc}")
            return
        if len(got) != len(want) or not all(same(g, w) for g, w in zip(got, want)):
            gi = [self._idx(g) for g in got]
            wi = [w["i"] for w in want]
            kind = "order" if sorted(gi) == sorted(wi) else "slice"
            violation(res, "C17/hr", f"C17/hr:{mode}:{kind}", f"hr {' '.join(args)} on a {cname} log of {n} records printed ids {gi[:12]} ({len(gi)}), expected {wi[:12]} ({len(wi)})")


def make() -> Check:
    return C17()
