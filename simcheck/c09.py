"""C09 - the session scan reports exactly the sessions reachable within the depth limit.

The real SessionsScanner command through entry_point() over tcp-lines on SimNet against a
GraphECU (gallia's UDSServer default-response chain over an arbitrary transition graph).
"""

from __future__ import annotations

import json
import sqlite3
from pathlib import Path
from typing import Any

from simcheck.models import GraphECU
from simkit.cmdworld import CmdWorld
from simkit.harness import Check, bump, new_result, rng_for, violation
from simkit.net import Policy

from gallia.commands.scan.uds.sessions import SessionsScanner, SessionsScannerConfig


def encode_ranges(rng: Any, ids: list[int]) -> list[str]:
    """The id set written the way the command line accepts it: runs as 'a-b', singles, hex or decimal, in any order,
    with repeated and overlapping elements.  Built from the set, so the set is the ground truth whatever a parser does."""
    ids = sorted(set(ids))
    runs: list[list[int]] = []
    for x in ids:
        if runs and runs[-1][-1] == x - 1:
            runs[-1].append(x)
        else:
            runs.append([x])

    def num(x: int) -> str:
        return rng.choice([f"{x:#x}", f"{x:#04x}", str(x)])

    elems: list[str] = []
    for r in runs:
        if len(r) == 1:
            elems.append(num(r[0]))
        elif len(r) == 2 and rng.random() < 0.5:
            elems += [num(r[0]), num(r[1])]
        else:
            elems.append(f"{num(r[0])}-{num(r[-1])}")
            # overlapping / repeated parts of the same run
            for _ in range(rng.choice([0, 1, 2])):
                a = rng.choice(r)
                b = rng.choice([y for y in r if y >= a])
                elems.append(num(a) if a == b or rng.random() < 0.4 else f"{num(a)}-{num(b)}")
    rng.shuffle(elems)
    # some elements joined by commas inside one argument
    out: list[str] = []
    for e in elems:
        if out and rng.random() < 0.3:
            out[-1] = out[-1] + "," + e
        else:
            out.append(e)
    return out


def reachable(graph: dict[int, list[int]], depth: int, skip: set[int]) -> tuple[set[int], dict[int, int]]:
    """Sessions with a path of length 1..depth from session 1, never touching skipped sessions."""
    frontier = {1}
    found: dict[int, int] = {}
    for d in range(1, depth + 1):
        nxt = set()
        for s in frontier:
            for t in graph.get(s, []):
                if t in skip:
                    continue
                if t not in found:
                    found[t] = d
                nxt.add(t)
        # BFS: only sessions first seen at this depth need expanding
        frontier = {t for t in nxt if found[t] == d}
        if not frontier:
            break
    return set(found), found


def gen_graph(rng: Any, big: bool = False) -> dict[int, list[int]]:
    n = rng.choice([2, 3, 4, 5, 6, 8, 12] if not big else [4, 8, 12, 16, 24])
    # session ids 0x02..0x7F (the whole sub-function range); the edges of the range come up more often than by chance
    pool = list(range(2, 0x80))
    picked = set(rng.sample(pool, n - 1))
    if n > 2 and rng.random() < 0.3:
        picked = set(list(picked)[: n - 2]) | {rng.choice([0x7F, 0x7F, 0x7E, 0x02, 0x40, 0x3F])}
    ids = [1] + sorted(picked)
    style = rng.choice(["sparse", "dense", "chain", "cycle", "islands", "random"])
    g: dict[int, set[int]] = {s: {1} for s in ids}
    others = ids[1:]
    if style == "chain":
        order = [1] + rng.sample(others, len(others))
        for a, b in zip(order, order[1:]):
            g[a].add(b)
    elif style == "cycle":
        order = [1] + rng.sample(others, len(others))
        for a, b in zip(order, order[1:] + [order[1] if len(order) > 1 else 1]):
            g[a].add(b)
    elif style == "islands":
        half = others[: len(others) // 2]
        for a in [1] + half:
            for b in half:
                if rng.random() < 0.5:
                    g[a].add(b)
        rest = others[len(others) // 2 :]
        for a in rest:  # component not reachable from 1
            for b in rest:
                if rng.random() < 0.6:
                    g[a].add(b)
    else:
        p = {"sparse": 0.15, "dense": 0.7, "random": rng.random()}[style]
        for a in ids:
            for b in ids:
                if rng.random() < p:
                    g[a].add(b)
    # sessions only reachable through non-default sessions: drop some direct edges from 1
    if rng.random() < 0.4 and len(others) > 1:
        keep = rng.choice(others)
        g[1] = {1, keep}
    return {s: sorted(ts) for s, ts in g.items()}


class C09(Check):
    prop = "C09"
    level = "exploration"
    rule = (
        "random transition graphs over 2-12 sessions from 1..0x7F (range edges 0x02, 0x3F/0x40, 0x7E, 0x7F boosted) {sparse, dense, chain, cycle, islands (component unreachable from the default session), "
        "sessions reachable only through non-default sessions} x depth 1-5 x skip lists (integers in any order, or command-line range expressions with overlaps; incl. the default session, ids not in the graph, numeric neighbours) x response code of a refused change {0x7E/0x12 told apart, always 0x12, always 0x7E} x thorough on/off x reset on/off x database on/off x tester-present "
        "interval / off x latency and segmentation; every graph gives every session an edge to the default session. "
        "non-trivial = at least one session is reachable only at depth >= 2, lies beyond the depth limit, is skipped or unreachable; "
        "distinct = (graph shape class, depth, |result|, options)."
    )
    assumptions = [
        "every session (including the default session) accepts DiagnosticSessionControl(defaultSession) - the scanner's stack recovery presupposes it (ISO 14229-1)",
        "no message loss; latency well below the request timeout",
        "thorough mode is run on graphs of at most 5 sessions and depth <= 3 (its stack count is exponential by design)",
        "a skipped default session is never probed as a target but may still be requested by the stack recovery (the scanner's reset mechanism)",
    ]
    components = {
        "SessionsScanner command (entry_point, UDSScanner setup/teardown, tester-present worker), ECU client, tcp-lines transport": "real",
        "ECU": "GraphECU = subclass of gallia's UDSServer (default-response chain real), handle_client real",
        "database": "real DBHandler on SimSqlite (when enabled)",
    }
    shrink_lists: list[str] = []
    quick_runs = 400
    thorough_runs = 40000
    chunk = 2
    smoke_runs = 3

    def setup_process(self) -> None:
        pass

    def gen(self, seed: int, index: int, tier: str) -> dict[str, Any]:
        rng = rng_for(seed, "C09", index)
        plan: dict[str, Any] = {"prop": "C09", "index": index}
        g = gen_graph(rng, big=(tier != "quick"))
        plan["thorough"] = rng.random() < 0.2
        if plan["thorough"]:
            keep = [1] + [s for s in sorted(g) if s != 1][:4]
            g = {s: [t for t in ts if t in keep] for s, ts in g.items() if s in keep}
        plan["graph"] = {str(k): v for k, v in g.items()}
        plan["depth"] = rng.choice([1, 2, 3, 4, 5] if tier == "quick" else [2, 3, 5, 6, 8]) if not plan["thorough"] else rng.choice([1, 2, 3])
        ids = sorted(g)
        plan["skip"] = sorted(rng.sample(ids[1:], rng.choice([0, 0, 1, 2]) if len(ids) > 2 else 0)) if len(ids) > 1 else []
        if rng.random() < 0.15:
            plan["skip"] = sorted(set(plan["skip"]) | {rng.randrange(2, 0x80)})
        if rng.random() < 0.18:
            plan["skip"] = sorted(set(plan["skip"]) | {1})
            if not plan["thorough"] and rng.random() < 0.7:
                plan["depth"] = max(plan["depth"], rng.choice([2, 3]))  # the default session on the skip list matters from the second level on
        nb = [t - 1 for t in g.get(1, []) if t >= 3]
        if nb and rng.random() < 0.15:
            # the numeric neighbour below a session offered by the default session (candidates are tried in numeric order)
            plan["skip"] = sorted(set(plan["skip"]) | {rng.choice(nb)})
        plan["skip_expr"] = None
        if plan["skip"] and rng.random() < 0.4:
            # as on the command line: range expressions; a third of them with a block of consecutive ids around a skipped one
            if rng.random() < 0.5:
                x = rng.choice([s for s in plan["skip"] if s != 1] or [0x40])
                lo = max(2, x - rng.randrange(0, 12))
                plan["skip"] = sorted(set(plan["skip"]) | set(range(lo, min(0x7F, x + rng.randrange(1, 30)) + 1)))
            plan["skip_expr"] = encode_ranges(rng, plan["skip"])
        if plan["skip"] and not plan["skip_expr"]:
            rng.shuffle(plan["skip"])  # a list handed over through the Python API comes in any order
        # which response code the ECU refuses a session change with
        plan["refuse_nrc"] = rng.choice([None, None, 0x12, 0x12, 0x7E])  # (other codes make the scanner list the session as "identified but not activated": a different report)
        # some session changes are answered busyRepeatRequest the first time (the client's retries take care of it)
        edges_ = [(a_, b_) for a_, ts_ in g.items() for b_ in ts_]
        plan["busy_once"] = [list(e_) for e_ in rng.sample(edges_, min(len(edges_), rng.choice([1, 2, 4])))] if rng.random() < 0.25 else []
        plan["reset"] = rng.random() < 0.2
        plan["offer_reset"] = rng.random() < 0.8
        # ECU model dimension: the reboot happens a little AFTER the positive response to ECUReset (well inside the 0.5 s the
        # scanner waits before it pings the ECU again)
        plan["reset_delay"] = rng.choice([0.0, 0.004, 0.05, 0.3]) if plan["reset"] else 0.0
        # ECU model dimension: requests for some session ids are not answered at all (the ECU stays where it is); such a session
        # cannot be entered, the scan must get over the timeouts and still report the rest (own stream of draws)
        rng8 = rng_for(seed, "C09-silent", index)
        plan["silent"] = sorted(rng8.sample(range(2, 0x7F), rng8.choice([1, 2]))) if rng8.random() < 0.12 and not plan["thorough"] else []
        plan["conn_bound"] = rng8.random() < 0.4
        if plan["silent"] and rng8.random() < 0.5 and len(g) > 1:
            plan["silent"][0] = rng8.choice(sorted(k_ for k_ in g if k_ != 1))
            plan["silent"] = sorted(set(plan["silent"]))
        plan["db"] = rng.random() < 0.4
        # an earlier, finished scan of the same target in the same database (its session_transition rows must not influence this scan)
        plan["prior_depth"] = rng.choice([None, None, 2, 3, 4]) if plan["db"] and len(g) <= 6 else None
        plan["tp"] = rng.choice([None, 0.05, 0.5, 2.0])
        plan["sleep"] = rng.choice([0, 0, 1])
        if plan["reset"]:
            # a reset before every probe multiplies the simulated time (wait_for_ecu); keep the tester-present rate
            # and the exponential thorough mode in proportion so that one scan stays within seconds of wall time
            if plan["tp"] == 0.05:
                plan["tp"] = 0.5
            if plan["thorough"]:
                plan["depth"] = min(plan["depth"], 2)
        plan["lat"] = rng.choice([[0.0001, 0.0005], [0.001, 0.004], [0.005, 0.02]])
        plan["segment"] = rng.choice(["whole", "random", "bytes"])
        plan["net_seed"] = rng.getrandbits(30)
        return plan

    def simplify(self, plan: dict[str, Any]) -> Any:
        import copy

        for key, val in (("db", False), ("reset", False), ("tp", None), ("segment", "whole"), ("thorough", False), ("sleep", 0)):
            if plan.get(key) != val:
                p = copy.deepcopy(plan)
                p[key] = val
                yield p
        if plan.get("skip_expr"):
            p = copy.deepcopy(plan)
            p["skip_expr"] = None
            yield p
        if plan["skip"]:
            p = copy.deepcopy(plan)
            p["skip"] = []
            p["skip_expr"] = None
            yield p
        g = plan["graph"]
        for s in list(g):
            if s != "1":
                p = copy.deepcopy(plan)
                del p["graph"][s]
                p["graph"] = {k: [t for t in v if str(t) in p["graph"]] for k, v in p["graph"].items()}
                yield p

    def run(self, plan: dict[str, Any]) -> dict[str, Any]:
        res = new_result()
        world = CmdWorld(seed=plan["net_seed"], log_level=25)
        try:
            self._run(plan, world, res)
        finally:
            world.uninstall()
            world.destroy()
        return res

    @staticmethod
    def _sess(text: str) -> int:
        """Session as printed by the scanner: a number, or the name of a standard session."""
        try:
            return int(text, 0)
        except ValueError:
            from gallia.services.uds.core.constants import DiagnosticSessionControlSubFuncs

            return int(DiagnosticSessionControlSubFuncs[text.strip()])

    def _run(self, plan: dict[str, Any], world: CmdWorld, res: dict[str, Any]) -> None:
        tmp = Path(world.tmp)
        graph = {int(k): list(v) for k, v in plan["graph"].items()}
        world.net.policy_factory = lambda i, d: Policy(seed=plan["net_seed"] + 2 * i + (d == "s2c"), segment=plan["segment"], lat_min=plan["lat"][0], lat_max=plan["lat"][1])
        world.sql.latency = lambda c, n: 0.0003
        world.install(capture=lambda r: getattr(r, "tags", None) == ["result"])
        ecu = GraphECU(graph, offer_reset=plan["offer_reset"], refuse_nrc=plan.get("refuse_nrc"))
        ecu.busy_once = {tuple(e_) for e_ in plan.get("busy_once") or []}
        ecu.reset_delay = plan.get("reset_delay", 0.0)
        ecu.silent = set(plan.get("silent") or [])
        if plan.get("conn_bound"):
            # ECU model dimension: the diagnostic session belongs to the connection - a new TCP connection starts in the default
            # session (what DoIP / TCP gateways do); a scan that reconnects without need loses its place
            def on_accept(conn: Any) -> None:
                if conn.index >= 1:
                    ecu.state.reset()
                    ecu.conn_resets = getattr(ecu, "conn_resets", 0) + 1

            world.net.on_accept = on_accept
        kw: dict[str, Any] = {}
        if plan["db"]:
            kw["db"] = tmp / "db.sqlite"
        cfg = SessionsScannerConfig(
            target="tcp-lines://ecu:1", dumpcap=False, depth=plan["depth"], skip=plan.get("skip_expr") or plan["skip"], thorough=plan["thorough"],
            reset=1 if plan["reset"] else None, sleep=plan["sleep"], tester_present=plan["tp"] is not None,
            tester_present_interval=plan["tp"] or 0.5, timeout=2.0, **kw,
        )
        holder: dict[str, Any] = {}

        async def main() -> int:
            await world.start_vecu(ecu, "tcp://ecu:1")
            if plan.get("prior_depth"):
                prior = SessionsScanner(SessionsScannerConfig(target="tcp-lines://ecu:1", dumpcap=False, depth=plan["prior_depth"], tester_present=False, timeout=2.0, **kw))
                await prior.entry_point()
                ecu.state.reset()
                ecu.monitor.requests.clear()
                world.records.clear()
            cmd = SessionsScanner(cfg)
            holder["cmd"] = cmd
            return await cmd.entry_point()

        # cap: every probe is one exchange; generous factor on the number of probes
        n = len(graph)
        stacks = (n ** plan["depth"]) if plan["thorough"] else n
        vcap = (400.0 if plan.get("prior_depth") else 0.0) + 60.0 + stacks * 130 * (plan["depth"] + 2) * (plan["lat"][1] * 4 + 0.01) * 20 + stacks * plan["depth"] * (plan["sleep"] + 3.0) * 130 * (1 if plan["reset"] else 0.02)
        vcap += len(plan.get("silent") or []) * (stacks + 1) * (plan["depth"] + 1) * 40.0  # every unanswered request costs the client's retries
        out = world.run_cli(main, vcap=vcap, stepcap=30_000_000)
        world.sql.close_all()
        res["vtime"] = out["vtime"]
        res["steps"] = out["steps"]
        skip = set(plan["skip"])
        want, depth_of = reachable(graph, plan["depth"], skip | set(plan.get("silent") or []))
        cmd = holder.get("cmd")
        res["trace"] = [[s, p.hex()] for s, p in ecu.monitor.requests[:4000]] + [cmd.result if cmd else None]
        if out["kind"] == "hung":
            violation(res, "C09/termination", f"C09/termination:{'thorough' if plan['thorough'] else 'normal'}",
                      f"scan did not terminate within {vcap:.0f}s of virtual time on a graph of {n} sessions, depth {plan['depth']}: {out['pending'][:3]}")
            return
        if out["kind"] != "return" or out["exit"] != 0:
            violation(res, "C09/exit", f"C09/exit:{out['kind']}:{out['exit']}", f"scan ended with {out['kind']} exit={out['exit']} exc={out.get('exc')!r}")
            return
        got = list(cmd.result)
        if got != sorted(want):
            extra = sorted(set(got) - want)
            missing = sorted(want - set(got))
            kind = "extra" if extra and not missing else "missing" if missing and not extra else "both"
            why = ""
            if missing:
                why = f"missing at model depth {sorted({depth_of[m] for m in missing})} (limit {plan['depth']})"
            violation(res, "C09/reachability", f"C09/reachability:{kind}:{'thorough' if plan['thorough'] else 'normal'}",
                      f"scan reported {got}, reachable within depth {plan['depth']} are {sorted(want)} (extra {extra}, missing {missing}) {why}; graph {graph} skip {sorted(skip)}")
        # every reported session comes with stacks that really lead there (result-tagged records of the last scan)
        msgs = [r.getMessage() for r in world.records]
        if "Scan finished; Found the following sessions:" in msgs:
            last = len(msgs) - 1 - msgs[::-1].index("Scan finished; Found the following sessions:")
            cur_s = None
            listed: dict[int, int] = {}
            for m in msgs[last + 1 :]:
                if m.startswith("The following sessions were identified"):
                    break
                if m.startswith("* Session "):
                    cur_s = self._sess(m.split()[2])
                    listed[cur_s] = 0
                elif m.startswith("\tvia stack:") and cur_s is not None:
                    path = [self._sess(x) for x in m.split(":", 1)[1].split("(")[0].strip().split("->")]
                    listed[cur_s] += 1
                    ok = bool(path) and path[0] == 1 and len(path) <= plan["depth"] and not (set(path[1:]) | {cur_s}) & (skip - {1})
                    prev = None
                    for s_ in path + [cur_s]:
                        if prev is not None and s_ not in graph.get(prev, []):
                            ok = False
                        prev = s_
                    if not ok:
                        violation(res, "C09/stack", "C09/stack:reported-path-does-not-lead-there",
                                  f"reported 'session {cur_s:#x} via stack {path}' is not a sequence of at most {plan['depth']} allowed session changes in {graph} (skip {sorted(skip)})")
                        break
            if sorted(listed) != got or any(v == 0 for v in listed.values()):
                violation(res, "C09/stack", "C09/stack:session-without-stack", f"sessions listed with stacks {listed} vs result {got}")
        elif got:
            violation(res, "C09/stack", "C09/stack:no-result-records", "sessions were found but no result records were logged")
        # skipped sessions never requested
        for sess, pdu in ecu.monitor.requests:
            if len(pdu) >= 2 and pdu[0] == 0x10 and (pdu[1] & 0x7F) in skip and (pdu[1] & 0x7F) != 1:
                violation(res, "C09/skip", "C09/skip:skipped-session-requested", f"session {pdu[1] & 0x7F:#x} is on the skip list but was requested")
                break
        # database: transitions carry the reported sessions with a path that really leads there
        if plan["db"]:
            con = sqlite3.connect(tmp / "db.sqlite")
            rows = con.execute("SELECT destination, steps FROM session_transition WHERE run = (SELECT max(id) FROM scan_run) ORDER BY destination").fetchall()
            con.close()
            dests = [r[0] for r in rows]
            if dests != got:
                violation(res, "C09/db", "C09/db:session-transition-rows", f"session_transition rows {dests} differ from the reported sessions {got}")
            for dest, steps in rows:
                path = json.loads(steps)
                cur = None
                ok = True
                for s in path + [dest]:
                    if cur is not None and s not in graph.get(cur, []):
                        ok = False
                    cur = s
                if not ok or (path and path[0] != 1) or len(path) > plan["depth"]:
                    violation(res, "C09/stack", "C09/stack:path-does-not-lead-there", f"recorded stack {path} -> {dest:#x} is not a path of at most {plan['depth']} changes in the graph {graph}")
                    break
        nt = any(d >= 2 for d in depth_of.values()) or bool(skip & set(graph)) or len(want) < len([s for s in graph if s not in skip])
        res["nontrivial"] = bool(nt)
        maxd = max(depth_of.values(), default=0)
        res["shape"] = f"n{n}|e{sum(len(v) for v in graph.values())}|d{plan['depth']}|maxd{maxd}|r{len(want)}|s{len(skip)}|{'T' if plan['thorough'] else ''}{'R' if plan['reset'] else ''}{'D' if plan['db'] else ''}|tp{plan['tp']}|{plan['segment']}"
        if plan["thorough"]:
            bump(res["faults"], "thorough")
        if plan["reset"]:
            bump(res["faults"], "reset_between_probes")
        if getattr(ecu, "conn_resets", 0):
            bump(res["faults"], "new_connection_started_in_the_default_session", ecu.conn_resets)
        if ecu.silent_fired:
            bump(res["faults"], "session_change_requests_left_unanswered_by_the_ecu", ecu.silent_fired)
        if ecu.late_resets:
            bump(res["faults"], "ecu_reboots_after_acknowledging_the_reset", ecu.late_resets)
        if plan.get("prior_depth"):
            bump(res["faults"], "earlier_scan_in_same_database")
        if getattr(ecu, "busy_fired", 0):
            bump(res["faults"], "session_change_answered_busy_once", ecu.busy_fired)
        if plan.get("skip_expr"):
            bump(res["faults"], "skip_as_range_expression")
        if 1 in skip:
            bump(res["faults"], "default_session_skipped")
        if plan["tp"] is not None:
            bump(res["faults"], "tester_present_worker")
        beyond = [s for s in graph if s not in want and s not in skip]
        if beyond:
            bump(res["probes"], "graph_has_sessions_not_to_be_reported")
        if any(d >= 2 for d in depth_of.values()):
            bump(res["probes"], "session_found_through_non_default_session")


def make() -> Check:
    return C09()
