"""C07 - HSFZ: frames are demultiplexed correctly under any segmentation and interleaving.

Real HSFZTransport / HSFZConnection on SimNet against a scripted HSFZ gateway (stub).
"""

from __future__ import annotations

import struct
from typing import Any

from simcheck import gw as G
from simkit.harness import Check, bump, new_result, rng_for, violation
from simkit.loop import sim_run
from simkit.net import SimNet
from simkit.world import Recorder, quiet_logging

from gallia.transports.hsfz import HSFZTransport

ERR_WORDS = [0x40, 0x41, 0x42, 0x43, 0x44, 0x45, 0xFF]
STATUS_WORDS = [0x10, 0x11, 0x13]


class HSFZProto(G.Proto):
    name = "hsfz"
    alive_deadline = 0.05  # "immediately": nothing in the client may delay it

    def __init__(self, tester: int, ecu: int) -> None:
        self.tester = tester
        self.ecu = ecu

    # client -> gateway
    def parse(self, buf: bytes) -> tuple[dict[str, Any] | None, int]:
        if len(buf) < 6:
            return None, 0
        ln, cw = struct.unpack("!IH", buf[:6])
        if len(buf) < 6 + ln:
            return None, 0
        body = buf[6 : 6 + ln]
        if cw == 0x01 and ln >= 2:
            return {"kind": "data", "src": body[0], "dst": body[1], "payload": body[2:], "raw": buf[: 6 + ln]}, 6 + ln
        if cw == 0x12:
            return {"kind": "alive_response", "body": body, "raw": buf[: 6 + ln]}, 6 + ln
        return {"kind": "other", "cw": cw, "body": body, "raw": buf[: 6 + ln]}, 6 + ln

    # gateway -> client
    def build(self, spec: dict[str, Any], gw: G.Gateway) -> bytes:
        f = spec["f"]
        req = gw.requests[spec["req"]] if spec.get("req") is not None and spec["req"] < len(gw.requests) else b"\x00"

        def frame(cw: int, body: bytes) -> bytes:
            return struct.pack("!IH", len(body), cw) + body

        if f == "ack":
            spec["_match"] = req
            return frame(0x02, bytes([self.tester, self.ecu]) + req[:5])
        if f == "ack_wrong_addr":
            a, b = [(self.ecu, self.tester), (self.tester, (self.ecu + 1) & 0xFF), ((self.tester + 1) & 0xFF, self.ecu)][spec.get("v", 0) % 3]
            if (a, b) == (self.tester, self.ecu):
                a = (a + 7) & 0xFF
            return frame(0x02, bytes([a, b]) + req[:5])
        if f == "ack_wrong_echo":
            echo = bytearray(req[:5])
            v = spec.get("v", 0) % 3
            if v == 0 or len(echo) < 2:
                echo[0] ^= 0x55
            elif v == 1:
                echo = echo[:-1]  # too short
            else:
                echo = echo + b"\x00"  # too long
            return frame(0x02, bytes([self.tester, self.ecu]) + bytes(echo))
        if f == "data":
            payload = bytes([0x62, spec["tag"] >> 8, spec["tag"] & 0xFF]) + bytes((spec["tag"] * 7 + i) & 0xFF for i in range(spec.get("len", 2)))
            if spec.get("empty"):
                payload = b""  # a data frame that consists of the address header only (Len == 2)
            spec["_payload"] = payload
            return frame(0x01, bytes([self.ecu, self.tester]) + payload)
        if f == "data_other":
            a, b = [(self.tester, self.ecu), (self.ecu, (self.tester + 1) & 0xFF), ((self.ecu + 1) & 0xFF, self.tester)][spec.get("v", 0) % 3]
            if (a, b) == (self.ecu, self.tester):
                b = (b + 9) & 0xFF
            return frame(0x01, bytes([a, b]) + bytes([0x62, 0xEE, spec.get("v", 0) & 0xFF]))
        if f == "alive":
            return frame(0x12, bytes(range(spec.get("len", 0))))
        if f == "short":
            return frame(spec.get("cw", 0x01), bytes(spec.get("len", 0)))
        if f == "ctrl":
            return frame(spec["cw"], bytes(spec.get("len", 0)))
        if f == "err":
            return frame(spec["cw"], bytes(spec.get("len", 0)))
        raise AssertionError(f)

    def classify(self, spec: dict[str, Any]) -> str:
        f = spec["f"]
        return {
            "ack": "ack",
            "ack_wrong_addr": "other",
            "ack_wrong_echo": "other",
            "data": "data_t",
            "data_other": "other",
            "alive": "alive",
            "short": "ignored",
            "ctrl": "status",
            "err": "err",
        }[f]

    def alive_response_ok(self, frame: dict[str, Any], gw: G.Gateway) -> bool:
        return frame["raw"] == struct.pack("!IHH", 2, 0x12, self.tester)


def _requests(rng: Any, n: int) -> list[str]:
    out = []
    for i in range(n):
        ln = rng.choice([1, 2, 3, 4, 5, 6, 8, 20])
        body = bytes([0x22 + i]) + bytes(rng.getrandbits(8) for _ in range(ln - 1))
        out.append(body.hex())
    return out


class C07(Check):
    prop = "C07"
    level = "fault_enumeration"
    rule = (
        "seeded conversations: 1-4 requests x reactions over {ACK, ACK wrong addr / wrong echo, DATA ecu->tester, DATA other pair, ALIVE(len), "
        "SHORT(len 0|1), status words 0x10/0x11/0x13, error words 0x40-0x45/0xFF, nothing} with per-frame delay classes {0, small, ack_timeout-0.1, "
        "ack_timeout+0.1} and same-segment joins, unsolicited frames at absolute instants, ack timeouts {50 ms, 1 s, 3 s}; byte stream split at every "
        "single offset of the conversation (stratified: index k splits at offset k), byte-by-byte, random multi-split, whole. "
        "non-trivial = at least one non-ACK/DATA frame, a join, a split inside a frame or a missing/late ack; distinct = sequence of "
        "(frame class, delivered during which client op) plus op outcomes."
    )
    assumptions = [
        "one task uses the transport sequentially (write, read, ...); write() is called without a caller timeout",
        "status control words 0x10/0x11/0x13: {ignored, connection error + close} both accepted",
        "requests differ in their first five bytes, so an ack matches exactly one request",
        "deliveries closer than 12 ms to a deadline make a run ambiguous (counted, not judged)",
    ]
    components = {
        "HSFZTransport, HSFZConnection (reader task, queue, mutex, ack timer)": "real",
        "asyncio streams": "real StreamReader/Writer on SimNet transport",
        "HSFZ gateway": "stub: emits what the plan says, independent header codec",
    }
    shrink_lists = ["ops", "reactions", "reactions.0", "reactions.1", "reactions.2", "reactions.3", "unsolicited"]
    quick_runs = 60000
    thorough_runs = 1500000
    chunk = 300

    def setup_process(self) -> None:
        quiet_logging()

    def gen(self, seed: int, index: int, tier: str) -> dict[str, Any]:
        rng = rng_for(seed, "C07", index)
        plan: dict[str, Any] = {"prop": "C07", "index": index}
        tester = rng.choice([0xF4, 0xF4, 0x00, 0xFF, 0x10])
        ecu = rng.choice([0x10, 0x1D, 0xF4, 0x00, 0xFF])
        ack_ms = rng.choice([50, 1000, 1000, 3000])
        plan["uri"] = {"src_addr": tester, "dst_addr": ecu, "ack_timeout": ack_ms}
        ackT = ack_ms / 1000
        nreq = rng.choice([1, 1, 2, 2, 3, 4])
        reqs = _requests(rng, nreq)
        tag = [0]

        def new_tag() -> int:
            tag[0] += 1
            return tag[0] + (index % 200) * 256

        def dclass() -> float:
            return rng.choice([0.0, 0.0, 0.001, 0.005, 0.02, max(ackT - 0.1, 0.001) if ackT > 0.2 else 0.005, ackT + 0.1])

        def noise() -> dict[str, Any]:
            k = rng.choices(
                ["data_other", "alive", "short", "ack_wrong_addr", "ack_wrong_echo", "ctrl", "err", "data"],
                weights=[3, 4, 2, 2, 2, 1, 1, 3],
            )[0]
            s: dict[str, Any] = {"f": k, "d": dclass(), "join": rng.random() < 0.4}
            if k == "alive":
                s["len"] = rng.choice([0, 0, 1, 2, 4])
            elif k == "short":
                s["len"] = rng.choice([0, 1])
                s["cw"] = rng.choice([1, 2])
            elif k == "ctrl":
                s["cw"] = rng.choice(STATUS_WORDS)
                s["len"] = rng.choice([0, 2, 4])
            elif k == "err":
                s["cw"] = rng.choice(ERR_WORDS)
                s["len"] = rng.choice([0, 2, 4])
            elif k == "data":
                s["tag"] = new_tag()
                s["len"] = rng.choice([0, 1, 2, 8, 40])
            else:
                s["v"] = rng.randrange(3)
            return s

        reactions = []
        quiet = rng.random() < 0.35  # plain conversations keep the basic path well covered
        for _ in range(nreq):
            fr: list[dict[str, Any]] = []
            for _ in range(0 if quiet else rng.choice([0, 0, 1, 1, 2])):
                fr.append(noise())
            r = rng.random()
            if r < 0.85:
                fr.append({"f": "ack", "d": dclass() if rng.random() < 0.3 else rng.choice([0.0, 0.001]), "join": rng.random() < 0.4})
            for _ in range(0 if quiet else rng.choice([0, 0, 1, 2])):
                fr.append(noise())
            if rng.random() < 0.9:
                fr.append({"f": "data", "tag": new_tag(), "len": rng.choice([0, 1, 2, 8, 40, 300]), "d": rng.choice([0.0, 0.001, 0.01, 0.2]), "join": rng.random() < 0.4})
            for _ in range(0 if quiet else rng.choice([0, 0, 0, 1])):
                fr.append(noise())
            reactions.append(fr)
        if rng.random() < 0.08:
            datas_ = [s_ for fr_ in reactions for s_ in fr_ if s_.get("f") == "data"]
            if datas_:
                rng.choice(datas_)["empty"] = True  # at most one: payloads identify the frames
        plan["reactions"] = reactions
        ops: list[dict[str, Any]] = []
        for i in range(nreq):
            if rng.random() < 0.15:
                ops.append({"op": "sleep", "d": rng.choice([0.01, 0.3, 1.2])})
            ops.append({"op": "write", "data": reqs[i], "timeout": None})
            for _ in range(rng.choice([0, 1, 1, 1, 2])):
                ops.append({"op": "read", "timeout": rng.choice([0.05, 0.5, 1.0, 2.0])})
        plan["ops"] = ops
        plan["unsolicited"] = []
        if rng.random() < 0.04:
            # many frames nobody reads (other testers' traffic) pile up while the client is idle; then an alive check
            flood = [{"f": "data_other", "d": 0.0005, "join": rng.random() < 0.5, "v": k % 3} for k in range(rng.choice([33, 40, 100, 250]))]
            flood.append({"f": "alive", "d": 0.01, "join": False, "len": 0})
            plan["unsolicited"].append({"at": 0.02, "frames": flood})
            ops.insert(0, {"op": "sleep", "d": 1.5})
        if not quiet and rng.random() < 0.3:
            plan["unsolicited"].append({"at": rng.choice([0.0005, 0.01, 0.3, 1.05, 2.5]), "frames": [noise() for _ in range(rng.choice([1, 2]))]})
        # network: stratified single split for low indices, then mixed
        mode = rng.choice(["whole", "random", "random", "bytes", "split"])
        seg: Any = mode
        if index < 400:
            seg = ["split", [index % 200]]  # every single split offset of the first 200 stream bytes
        elif mode == "split":
            seg = ["split", sorted(rng.sample(range(1, 120), rng.choice([1, 2, 3])))]
        plan["net"] = {
            "seed": rng.getrandbits(30),
            "lat": rng.choice([[0.0001, 0.0005], [0.0005, 0.003]]),
            "segment": seg,
            "max_parts": rng.choice([2, 3, 6]),
            "coalesce": rng.choice([0.0, 0.0, 0.5]),
            "gap": rng.choice([[0.0, 0.0], [0.0, 0.002], [0.001, 0.004]]),
        }
        rng9 = rng_for(seed, "C07-straddle", index)
        if index >= 400 and rng9.random() < 0.04:
            # a frame whose parts arrive 0.2 s apart after the connection has been idle for about I seconds, I around the values of
            # the protocol's timers (same stratum as in C06): no timer of the client may fire between the parts of a frame
            idle = rng9.choice([0.05, 0.5, 1.0, 3.0, 5.0, 10.0])
            plan["uri"]["ack_timeout"] = 1000
            plan["reactions"] = [[{"f": "ack", "d": 0.0, "join": False}, {"f": "data", "tag": new_tag(), "len": 2, "d": 0.0, "join": False}]]
            plan["ops"] = [{"op": "write", "data": reqs[0], "timeout": None}, {"op": "read", "timeout": 2.0}, {"op": "read", "timeout": idle + 3.0}]
            plan["unsolicited"] = [{"at": round(idle + rng9.choice([-0.1, 0.1, 0.3]), 3), "frames": [{"f": "data", "tag": new_tag(), "len": 40, "d": 0.0, "join": False}]}]
            plan["net"]["segment"] = "random"
            plan["net"]["max_parts"] = rng9.choice([2, 3])
            plan["net"]["gap"] = [0.2, 0.2]
            plan["net"]["coalesce"] = 0.0
            plan["straddle"] = idle
        return plan

    def simplify(self, plan: dict[str, Any]) -> Any:
        import copy

        if plan["net"]["segment"] != "whole":
            p = copy.deepcopy(plan)
            p["net"]["segment"] = "whole"
            yield p
        if plan["net"].get("coalesce"):
            p = copy.deepcopy(plan)
            p["net"]["coalesce"] = 0.0
            yield p
        for ri, r in enumerate(plan["reactions"]):
            for fi, f in enumerate(r):
                if f.get("d", 0) not in (0.0, 0.001):
                    p = copy.deepcopy(plan)
                    p["reactions"][ri][fi]["d"] = 0.001
                    yield p
                if f.get("len"):
                    p = copy.deepcopy(plan)
                    p["reactions"][ri][fi]["len"] = 0
                    yield p

    def run(self, plan: dict[str, Any]) -> dict[str, Any]:
        res = new_result()
        uri = plan["uri"]
        proto = HSFZProto(uri["src_addr"], uri["dst_addr"])
        ackT = uri["ack_timeout"] / 1000
        holder: dict[str, Any] = {}

        async def main(loop: Any) -> Any:
            rec = Recorder(loop)
            net = SimNet(loop, seed=plan["net"]["seed"])
            net.policy_factory = G.make_policy(plan)
            net.install()
            holder.update(net=net, rec=rec)
            gw = G.Gateway(loop, net, proto, plan, rec)
            holder["gw"] = gw
            net.listen(("tcp", "gw", 6801), gw.handle)
            target = f"hsfz://gw:6801?src_addr={uri['src_addr']:#x}&dst_addr={uri['dst_addr']:#x}&ack_timeout={uri['ack_timeout']}"
            tr = await HSFZTransport.connect(target)
            holder["tr"] = tr
            await G.run_ops(tr, plan, rec)
            rec.rec("ops_done")
            holder["closed_flag"] = tr._conn._closed
            for _ in range(2):
                try:
                    await tr.close()
                except Exception as e:  # noqa: BLE001
                    rec.rec("close_error", error=type(e).__name__)
                    holder["close_error"] = type(e).__name__
            return "done"

        try:
            out = sim_run(main, vcap=600.0, stepcap=1_000_000)
        finally:
            if "net" in holder:
                holder["net"].uninstall()
        rec: Recorder = holder["rec"]
        gw: G.Gateway = holder["gw"]
        events = rec.jsonable()
        res["trace"] = events + [["net"] + list(e) for e in holder["net"].events]
        res["vtime"] = out.vtime
        res["steps"] = out.steps
        gw.delivery_times()
        ops = G.collect_ops(events)
        if holder.get("close_error"):
            violation(res, "C07/close", f"C07/close-raised:{holder['close_error']}", f"close() at the end of the conversation raised {holder['close_error']}")
        if out.hung:
            violation(res, "C07/liveness", f"C07/liveness:{out.kind}", f"client never finished ({out.kind}); pending: {out.pending}")
        elif out.kind == "exc":
            raise out.exc  # type: ignore[misc]
        G.judge_demux("C07", proto, gw, ops, res, ackT)
        # when did the client side close (first close event on the net), for the alive oracle
        closed_at = None
        for e in holder["net"].events:
            if e[2] == "close" and e[4] == "c":
                closed_at = e[1]
                break
        G.judge_alive("C07", proto, gw, ops, res, closed_at, out.vtime)
        # error control word => connection must be closed afterwards
        err_delivered = [e for e in gw.sent if e["cls"] == "err" and e["t_del"] is not None]
        if err_delivered and not out.hung:
            t_err = err_delivered[0]["t_del"]
            later = [op for op in ops if op["t0"] >= t_err or (op["t0"] <= t_err <= op.get("t1", 1e18))]
            if later:
                bump(res["probes"], "error_word_met_by_op")
                if not holder.get("closed_flag"):
                    # the first op that met the error word must have failed and closed the connection
                    conn_seen = any(op["end"] and op["end"]["out"] == "conn" for op in later)
                    if not conn_seen and not any(op["end"] and op["end"]["out"] == "ok" for op in later[:1]):
                        violation(res, "C07/error-word", "C07/error-word:not-surfaced",
                                  "an error control word was delivered but no operation failed with a connection error / the connection stayed open")
        # shape
        shape = []
        for e in gw.sent:
            ph = "idle"
            for op in ops:
                if e["t_del"] is not None and op["t0"] <= e["t_del"] <= op.get("t1", 1e18):
                    ph = op["op"][0]
            shape.append(f"{e['cls']}@{ph}")
        outs = [f"{op['op'][0]}:{op['end']['out'] if op['end'] else 'hung'}" for op in ops]
        seg = plan["net"]["segment"]
        if plan.get("straddle"):
            bump(res["probes"], "frame_in_parts_0.2s_apart_after_an_idle_period_around_a_timer_value")
        res["shape"] = ",".join(shape) + "|" + ",".join(outs) + "|" + (seg if isinstance(seg, str) else "split")
        nt = any(e["cls"] not in ("ack", "data_t") for e in gw.sent) or any(op["end"] and op["end"]["out"] != "ok" for op in ops if not op["arg"].get("drain"))
        res["nontrivial"] = bool(nt or holder["net"].counters.get("segmented_writes"))
        for k, v in holder["net"].counters.items():
            if k in ("segmented_writes", "coalesced_writes"):
                bump(res["faults"], k, v)
        for e in gw.sent:
            if e["cls"] not in ("ack", "data_t"):
                bump(res["faults"], "frame_" + e["spec"]["f"])
        return res


def make() -> Check:
    return C07()
