"""C16 - a virtual ECU is fully determined by its seed and arguments.

Each plan holds a few cases (seed, parameters, switches, request history).  The same cases are
executed in several *fresh interpreters* that differ in exactly one environment knob each
(PYTHONHASHSEED, virtual epoch / pacing / backward steps of the wall clock, polluted global random state, import order, TZ) plus one
that changes everything; model and transcript digests must be identical.  A share of the cases
goes through the real `gallia script vecu rng` command on the simulated network.
"""

from __future__ import annotations

import json
import os
import subprocess
import sys
from typing import Any

import simkit
from simcheck.c13 import SWITCHES, gen_history, make_params
from simkit.harness import VERIF, Check, bump, new_result, rng_for, violation
from simkit.world import quiet_logging

from gallia.services.uds.server import RandomUDSServer

BASE_ENV = {"hashseed": "0", "epoch": 0.0, "pace": 1.0, "pollute": None, "import_first": "server", "tz": None, "steps_back": 0.0, "sibling": False, "restart": False}


def run_child(env: dict[str, Any], cases: list[dict[str, Any]]) -> dict[str, Any]:
    penv = dict(os.environ)
    penv["PYTHONHASHSEED"] = str(env["hashseed"])
    penv["PYTHONPATH"] = VERIF
    penv.pop("VERIF_DIGESTS", None)
    p = subprocess.run(
        [sys.executable, "-m", "simcheck.c16_child"],
        input=json.dumps({"env": env, "cases": cases}),
        capture_output=True,
        text=True,
        env=penv,
        cwd=VERIF,
        timeout=300,
    )
    if p.returncode != 0:
        raise RuntimeError(f"child interpreter failed ({p.returncode}): {p.stderr[-800:]}")
    return json.loads(p.stdout)


def reach(model: dict[str, Any]) -> tuple[set[int], set[int]]:
    """Sessions reachable from 1 and sessions that can return to 1 (edges = offered DSC sub-functions)."""
    edges = {int(s): set(sv.get("16") or []) for s, sv in model.items()}
    fwd = {1}
    todo = [1]
    while todo:
        s = todo.pop()
        for t in edges.get(s, ()):
            if t not in fwd and t in edges:
                fwd.add(t)
                todo.append(t)
    back = {1}
    changed = True
    while changed:
        changed = False
        for s, ts in edges.items():
            if s not in back and ts & back:
                back.add(s)
                changed = True
    return fwd, back


class C16(Check):
    prop = "C16"
    level = "exploration"
    rule = (
        "cases = seeds {0, 1, 3, 2^63, random} x randomness parameters x behaviour switches x request histories (C13 generator, incl. seed/key pairs); "
        "each case list is executed in 9 fresh interpreters: baseline (PYTHONHASHSEED=0) and variants changing exactly one of {PYTHONHASHSEED=1|4242|random, "
        "virtual epoch + pacing, polluted and consumed global random state, import order (whole command tree first), TZ, a sibling ECU with the same seed but other arguments that lived in the process before, an ECU object that is torn down and set up a second time (restart) before it serves} plus one changing all; 30 % of the cases "
        "through the real RngVirtualECU command (tcp / unix-lines) on the simulated network. non-trivial = a case whose transcript contains a positive "
        "non-default reply; distinct = distinct (model digest, transcript digest) pairs."
    )
    assumptions = [
        "security-access seeds are masked in the transcript (deliberately fresh); the key sent afterwards is the seed actually received",
        "gaps are kept below the 10 s inactivity limit in every environment",
        "reachability invariants are evaluated when DiagnosticSessionControl is among the mandatory services",
    ]
    components = {
        "RandomUDSServer.randomize / stateful_rng / handlers, RNG": "real, in fresh interpreter processes",
        "RngVirtualECU command + server transports + line transports": "real on SimNet (30 % of cases)",
    }
    shrink_lists = ["cases"]
    quick_runs = 48
    thorough_runs = 4000
    chunk = 1
    smoke_runs = 1
    run_wall_cap = 600.0

    def setup_process(self) -> None:
        quiet_logging()

    def gen(self, seed: int, index: int, tier: str) -> dict[str, Any]:
        rng = rng_for(seed, "C16", index)
        cases = []
        for _ in range(10):
            c: dict[str, Any] = {}
            c["ecu_seed"] = rng.choice([0, 1, 3, 2**63, rng.getrandbits(32), rng.getrandbits(48)])
            c["params"] = make_params(rng)
            # keep mandatory sessions inside the table the server allocates (0..0x7E)
            sw = {s: True for s in SWITCHES}
            if rng.random() < 0.2:
                sw[rng.choice(SWITCHES[3:])] = False
            c["switches"] = sw
            srv = RandomUDSServer(c["ecu_seed"], RandomUDSServer.RandomnessParameters(**c["params"]))
            try:
                srv.randomize()
                services = {s: {int(k): v for k, v in sv.items()} for s, sv in srv.services.items()}
            except Exception:  # noqa: BLE001
                services = {1: {0x10: [1]}}
            ops = gen_history(rng, services, rng.choice([5, 20, 40]))
            for op in ops:
                if op.get("gap", 0) and op["gap"] > 2.0:
                    op["gap"] = 2.0
            c["ops"] = ops
            c["via_command"] = rng.random() < 0.3
            c["scheme"] = rng.choice(["tcp", "unix"])
            c["net_seed"] = rng.getrandbits(30)
            cases.append(c)
        plan = {"prop": "C16", "index": index, "cases": cases}
        variants = [
            ("hashseed", {"hashseed": rng.choice(["1", "4242", "random"])}),
            ("hashseed2", {"hashseed": "random"}),
            ("clock", {"epoch": rng.choice([-1.0e9, 3.3e7, 1234.5]), "pace": rng.choice([0.0, 0.5, 2.0, 4.0]), "steps_back": rng.choice([0.0, 0.0, 0.5, 15.0, 3600.0])}),
            ("global-random", {"pollute": rng.randrange(1, 10**6)}),
            ("import-order", {"import_first": "commands"}),
            ("tz", {"tz": rng.choice(["Asia/Kolkata", "America/St_Johns", "UTC", "Pacific/Chatham"])}),
            ("sibling", {"sibling": True}),
            ("restart", {"restart": True}),
            ("all", {"restart": True, "hashseed": "random", "epoch": 9.9e8, "pace": 3.0, "pollute": 4711, "import_first": "commands", "tz": "Asia/Tokyo", "steps_back": 30.0, "sibling": True}),
        ]
        plan["envs"] = [["baseline", dict(BASE_ENV)]] + [[name, {**BASE_ENV, **delta}] for name, delta in variants]
        return plan

    def simplify(self, plan: dict[str, Any]) -> Any:
        import copy

        if len(plan["envs"]) > 2:
            for k in range(1, len(plan["envs"])):
                p = copy.deepcopy(plan)
                p["envs"] = [plan["envs"][0], plan["envs"][k]]
                yield p
        for ci, c in enumerate(plan["cases"]):
            if c.get("via_command"):
                p = copy.deepcopy(plan)
                p["cases"][ci]["via_command"] = False
                yield p
            if len(c["ops"]) > 1:
                p = copy.deepcopy(plan)
                p["cases"][ci]["ops"] = c["ops"][: len(c["ops"]) // 2]
                yield p

    def run(self, plan: dict[str, Any]) -> dict[str, Any]:
        res = new_result()
        cases = plan["cases"]
        if not cases:
            return res
        results = []
        for name, env in plan["envs"]:
            results.append((name, run_child(env, cases)))
        base_name, base = results[0]
        shapes = []
        for ci, case in enumerate(cases):
            b = base[str(ci)]
            if b.get("error"):
                violation(res, "C16/run", f"C16/run-failed:{b['error'].split(':')[0]}", f"case {ci} failed in the baseline interpreter: {b['error']}")
                continue
            for name, r in results[1:]:
                o = r[str(ci)]
                if o.get("error"):
                    violation(res, "C16/run", f"C16/run-failed:{name}", f"case {ci} failed in environment {name}: {o['error']}")
                    continue
                if o["model_digest"] != b["model_digest"]:
                    violation(res, "C16/model", f"C16/model-differs:{name}",
                              f"seed {case['ecu_seed']} params {case['params']}: the session/service model differs between the baseline interpreter and environment '{name}'")
                if o["transcript_digest"] != b["transcript_digest"]:
                    k = next((i for i, (x, y) in enumerate(zip(o["transcript"], b["transcript"])) if x != y), None)
                    a = b["transcript"][k] if k is not None and k < len(b["transcript"]) else None
                    c2 = o["transcript"][k] if k is not None and k < len(o["transcript"]) else None
                    violation(res, "C16/transcript", f"C16/transcript-differs:{name}:{'command' if case.get('via_command') else 'direct'}",
                              f"seed {case['ecu_seed']}: answers differ between baseline and '{name}' at request #{k}: {a} vs {c2}")
            # invariants on the model
            model = b.get("model")
            if model is not None:
                params = case["params"]
                mand_sess = params.get("mandatory_sessions", [1])
                for s in mand_sess:
                    if str(s) not in model:
                        violation(res, "C16/invariant", "C16/invariant:mandatory-session-missing", f"seed {case['ecu_seed']}: mandatory session {s:#x} is not offered ({sorted(map(int, model))})")
                mand_srv = params.get("mandatory_services", [0x10])
                for s, sv in model.items():
                    for m in mand_srv:
                        if str(int(m)) not in sv:
                            violation(res, "C16/invariant", "C16/invariant:mandatory-service-missing", f"seed {case['ecu_seed']}: mandatory service {int(m):#x} missing in session {int(s):#x}")
                if "1" not in model:
                    violation(res, "C16/invariant", "C16/invariant:no-default-session", f"seed {case['ecu_seed']}: default session not offered")
                elif 0x10 in [int(m) for m in mand_srv]:
                    fwd, back = reach(model)
                    alls = set(map(int, model))
                    if alls - fwd:
                        violation(res, "C16/invariant", "C16/invariant:session-unreachable", f"seed {case['ecu_seed']} params {params}: sessions {sorted(alls - fwd)} are offered but not reachable from the default session")
                    if alls - back:
                        violation(res, "C16/invariant", "C16/invariant:session-cannot-return", f"seed {case['ecu_seed']} params {params}: sessions {sorted(alls - back)} cannot return to the default session")
                    bump(res["probes"], "models_with_reachability_checked")
                    if len(alls) > 1:
                        bump(res["probes"], "multi_session_models")
            pos = sum(1 for q, a in b.get("transcript", []) if a and not a.startswith("7f") and not a.startswith("EXC") and not q.startswith("3e"))
            if pos:
                res["nontrivial"] = True
            if b.get("n_seeds"):
                bump(res["probes"], "security_seeds_issued", b["n_seeds"])
            if case.get("via_command"):
                bump(res["probes"], "cases_via_vecu_command")
            shapes.append(f"{(b['model_digest'] or '-')[:8]}{b['transcript_digest'][:8]}")
        res["trace"] = [[name, {ci: [r[ci].get("model_digest"), r[ci].get("transcript_digest")] for ci in sorted(r)}] for name, r in results]
        res["shape"] = ",".join(shapes)
        for name, _ in results[1:]:
            bump(res["faults"], "env_" + name)
        res["vtime"] = sum(r[ci].get("vtime", 0.0) for _, r in results for ci in r)
        res["steps"] = sum(r[ci].get("steps", 0) for _, r in results for ci in r)
        return res


def make() -> Check:
    return C16()
