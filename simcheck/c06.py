"""C06 - DoIP: frames are demultiplexed correctly under any segmentation and interleaving.

Real DoIPTransport / DoIPConnection on SimNet against a scripted DoIP gateway (stub).
"""

from __future__ import annotations

import struct
from typing import Any

from simcheck import gw as G
from simkit.harness import Check, bump, new_result, rng_for, violation
from simkit.loop import sim_run
from simkit.net import SimNet
from simkit.world import Recorder, quiet_logging

from gallia.transports.doip import DoIPTransport

ACK_TIME = 2.0
ACT_TIME = 2.0
NACK_CODES = [0x02, 0x03, 0x04, 0x05, 0x06, 0x06, 0x07, 0x08, 0x99]


class DoIPProto(G.Proto):
    name = "doip"
    alive_deadline = 0.5

    def __init__(self, src: int, target: int, version: int) -> None:
        self.src = src
        self.target = target
        self.version = version

    def hdr(self, ptype: int, body: bytes) -> bytes:
        return struct.pack("!BBHL", self.version, self.version ^ 0xFF, ptype, len(body)) + body

    def parse(self, buf: bytes) -> tuple[dict[str, Any] | None, int]:
        if len(buf) < 8:
            return None, 0
        ver, inv, ptype, ln = struct.unpack("!BBHL", buf[:8])
        if len(buf) < 8 + ln:
            return None, 0
        body = buf[8 : 8 + ln]
        raw = buf[: 8 + ln]
        if ptype == 0x0005:
            return {"kind": "activation", "raw": raw, "body": body, "ver": ver, "inv": inv}, 8 + ln
        if ptype == 0x8001 and ln >= 4:
            sa, ta = struct.unpack("!HH", body[:4])
            return {"kind": "data", "src": sa, "dst": ta, "payload": body[4:], "raw": raw}, 8 + ln
        if ptype == 0x0008:
            return {"kind": "alive_response", "raw": raw, "body": body}, 8 + ln
        return {"kind": "other", "ptype": ptype, "raw": raw}, 8 + ln

    def build(self, spec: dict[str, Any], gw: G.Gateway) -> bytes:
        f = spec["f"]
        req = gw.requests[spec["req"]] if spec.get("req") is not None and spec["req"] < len(gw.requests) else b"\x00"
        if f == "act":
            return self.hdr(0x0006, struct.pack("!HHBI", self.src, self.target, spec["code"], 0))
        if f == "ack":
            spec["_match"] = req
            echo = req[: spec["echo"]] if spec.get("echo") is not None else req
            return self.hdr(0x8002, struct.pack("!HHB", self.target, self.src, 0) + echo)
        if f == "nack":
            spec["_match"] = req
            return self.hdr(0x8003, struct.pack("!HHB", self.target, self.src, spec["code"]) + (req if spec.get("echo", True) else b""))
        if f == "ack_wrong_addr":
            a, b = [(self.src, self.target), (self.target, (self.src + 1) & 0xFFFF), ((self.target + 1) & 0xFFFF, self.src)][spec.get("v", 0) % 3]
            if (a, b) == (self.target, self.src):
                a = (a + 7) & 0xFFFF
            return self.hdr(0x8002, struct.pack("!HHB", a, b, 0) + req)
        if f == "ack_wrong_echo":
            echo = bytearray(req)
            echo[0] ^= 0x55
            return self.hdr(0x8002, struct.pack("!HHB", self.target, self.src, 0) + bytes(echo))
        if f == "data":
            payload = bytes([0x62, spec["tag"] >> 8, spec["tag"] & 0xFF]) + bytes((spec["tag"] * 7 + i) & 0xFF for i in range(spec.get("len", 2)))
            spec["_payload"] = payload
            return self.hdr(0x8001, struct.pack("!HH", self.target, self.src) + payload)
        if f == "data_other":
            a, b = [(self.src, self.target), (self.target, (self.src + 1) & 0xFFFF), ((self.target + 1) & 0xFFFF, self.src)][spec.get("v", 0) % 3]
            if (a, b) == (self.target, self.src):
                b = (b + 9) & 0xFFFF
            return self.hdr(0x8001, struct.pack("!HH", a, b) + bytes([0x62, 0xEE, spec.get("v", 0) & 0xFF]))
        if f == "alive":
            return self.hdr(0x0007, b"")
        if f == "unknown":
            return self.hdr(spec.get("ptype", 0x4002), bytes(spec.get("len", 0)))
        if f == "gnack":
            return self.hdr(0x0000, bytes([spec.get("code", 1)]))
        raise AssertionError(f)

    def classify(self, spec: dict[str, Any]) -> str:
        return {
            "act": "activation",
            "ack": "ack",
            "nack": "nack",
            "ack_wrong_addr": "other",
            "ack_wrong_echo": "other",
            "data": "data_t",
            "data_other": "other",
            "alive": "alive",
            "unknown": "ignored",
            "gnack": "other",
        }[spec["f"]]

    def alive_response_ok(self, frame: dict[str, Any], gw: G.Gateway) -> bool:
        return frame["raw"] == self.hdr(0x0008, struct.pack("!H", self.src))


def _requests(rng: Any, n: int) -> list[str]:
    out = []
    for i in range(n):
        ln = rng.choice([1, 2, 3, 4, 6, 8, 20])
        body = bytes([0x22 + i]) + bytes(rng.getrandbits(8) for _ in range(ln - 1))
        out.append(body.hex())
    return out


class C06(Check):
    prop = "C06"
    level = "fault_enumeration"
    rule = (
        "seeded conversations: URI (source/target address incl. 0, 0xFFFF, equal; all 256 activation types stratified over the first 256 indices; "
        "protocol versions 1-3 and 0x10) x routing activation response code (all codes of the enum plus undefined ones; none) x 1-4 requests x reactions over "
        "{ACK full/partial/empty echo, ACK wrong addr / wrong echo, NACK(code incl. TargetUnreachable), DIAG target->source, DIAG other pair, ALIVE_REQ, "
        "UNKNOWN type(len), generic NACK, nothing} with delay classes {0, small, 1.9 s, 2.1 s}, same-segment joins and unsolicited frames at absolute instants; "
        "stream split at every single offset (stratified), byte-by-byte, random multi-split, whole. non-trivial = a non-ACK/DIAG frame, a join, a split inside "
        "a frame, a denied activation or a missing/late ack; distinct = sequence of (frame class, client phase at delivery) plus op outcomes."
    )
    assumptions = [
        "one task uses the transport sequentially; write() is called without a caller timeout",
        "routing activation responses are 9 bytes (no OEM-specific field), reserved = 0",
        "requests differ in their first byte, so an ack matches exactly one request",
        "deliveries closer than 12 ms to a deadline make a run ambiguous (counted, not judged)",
    ]
    components = {
        "DoIPTransport, DoIPConnection (reader task, queues, mutex, ack/activation timers), DoIPConfig": "real",
        "asyncio streams": "real StreamReader/Writer on SimNet transport",
        "DoIP gateway": "stub: emits what the plan says, independent header codec",
    }
    shrink_lists = ["ops", "reactions", "reactions.0", "reactions.1", "reactions.2", "reactions.3", "unsolicited"]
    quick_runs = 60000
    thorough_runs = 1500000
    chunk = 300

    def setup_process(self) -> None:
        quiet_logging()

    def gen(self, seed: int, index: int, tier: str) -> dict[str, Any]:
        rng = rng_for(seed, "C06", index)
        plan: dict[str, Any] = {"prop": "C06", "index": index}
        src = rng.choice([0x0E00, 0x0E00, 0x0000, 0xFFFF, 0x00F4])
        tgt = rng.choice([0x1D, 0x4010, 0x0000, 0xFFFF, src])
        act_type = index if index < 256 else rng.choice([0, 1, 1, 0xE0, rng.randrange(256)])
        ver = rng.choice([1, 2, 3, 3, 3, 0x10])
        plan["uri"] = {"src_addr": src, "target_addr": tgt, "activation_type": act_type, "protocol_version": ver}
        r = rng.random()
        if r < 0.86:
            code = 0x10
        elif r < 0.97:
            code = rng.choice([0x00, 0x01, 0x02, 0x03, 0x04, 0x05, 0x06, 0x07, 0x11, 0x12, 0xE5, 0xFF])
        else:
            code = None
        pre = []
        if rng.random() < 0.2:
            pre = [{"f": rng.choice(["alive", "unknown", "gnack", "data_other"]), "d": 0.0, "join": False, "len": rng.choice([0, 3]), "ptype": 0x4002}]
        plan["act"] = {"frames": (pre + [{"f": "act", "code": code, "d": rng.choice([0.0, 0.001, 0.5, 1.9]), "join": rng.random() < 0.5}]) if code is not None else pre}
        plan["act_code"] = code
        nreq = rng.choice([1, 1, 2, 2, 3, 4])
        reqs = _requests(rng, nreq)
        tag = [0]

        def new_tag() -> int:
            tag[0] += 1
            return tag[0] + (index % 200) * 256

        def dclass() -> float:
            return rng.choice([0.0, 0.0, 0.001, 0.005, 0.02, 0.45, 0.6, ACK_TIME - 0.1, ACK_TIME + 0.1])

        def noise() -> dict[str, Any]:
            k = rng.choices(
                ["data_other", "alive", "unknown", "ack_wrong_addr", "ack_wrong_echo", "gnack", "data"],
                weights=[3, 4, 2, 2, 2, 1, 3],
            )[0]
            s: dict[str, Any] = {"f": k, "d": dclass(), "join": rng.random() < 0.4}
            if k == "unknown":
                s["ptype"] = rng.choice([0x0001, 0x0004, 0x4002, 0x4004, 0x9999])
                s["len"] = rng.choice([0, 1, 7, 33])
            elif k == "gnack":
                s["code"] = rng.choice([0, 1, 2, 3, 4])
            elif k == "data":
                s["tag"] = new_tag()
                s["len"] = rng.choice([0, 1, 2, 8, 40])
            else:
                s["v"] = rng.randrange(3)
            return s

        reactions = []
        quiet = rng.random() < 0.35
        for _ in range(nreq):
            fr: list[dict[str, Any]] = []
            for _ in range(0 if quiet else rng.choice([0, 0, 1, 1, 2])):
                fr.append(noise())
            r = rng.random()
            d0 = dclass() if rng.random() < 0.3 else rng.choice([0.0, 0.001])
            if r < 0.75:
                fr.append({"f": "ack", "echo": rng.choice([None, None, 0, 1, 2]), "d": d0, "join": rng.random() < 0.4})
            elif r < 0.9:
                fr.append({"f": "nack", "code": rng.choice(NACK_CODES), "echo": rng.random() < 0.7, "d": d0, "join": rng.random() < 0.4})
            for _ in range(0 if quiet else rng.choice([0, 0, 1, 2])):
                fr.append(noise())
            if rng.random() < 0.9:
                fr.append({"f": "data", "tag": new_tag(), "len": rng.choice([0, 1, 2, 8, 40, 300]), "d": rng.choice([0.0, 0.001, 0.01, 0.2]), "join": rng.random() < 0.4})
            for _ in range(0 if quiet else rng.choice([0, 0, 0, 1])):
                fr.append(noise())
            reactions.append(fr)
        plan["reactions"] = reactions
        ops: list[dict[str, Any]] = []
        for i in range(nreq):
            if rng.random() < 0.15:
                ops.append({"op": "sleep", "d": rng.choice([0.01, 0.3, 1.2])})
            ops.append({"op": "write", "data": reqs[i], "timeout": None})
            for _ in range(rng.choice([0, 1, 1, 1, 2])):
                ops.append({"op": "read", "timeout": rng.choice([0.05, 0.5, 1.0, 2.0])})
        plan["ops"] = ops
        plan["unsolicited"] = []
        if rng.random() < 0.04:
            # many frames nobody reads (other testers' traffic) pile up while the client is idle; then an alive check
            flood = [{"f": "data_other", "d": 0.0005, "join": rng.random() < 0.5, "v": k % 3} for k in range(rng.choice([33, 40, 100, 250, 300, 700]))]
            flood.append({"f": "alive", "d": 0.01, "join": False, "len": 0})
            plan["unsolicited"].append({"at": 0.02, "frames": flood})
            ops.insert(0, {"op": "sleep", "d": 1.5})
        if not quiet and rng.random() < 0.3:
            plan["unsolicited"].append({"at": rng.choice([0.0005, 0.01, 0.3, 1.05, 2.5]), "frames": [noise() for _ in range(rng.choice([1, 2]))]})
        mode = rng.choice(["whole", "random", "random", "bytes", "split"])
        seg: Any = mode
        if 256 <= index < 656:
            seg = ["split", [(index - 256) % 200]]
        elif mode == "split":
            seg = ["split", sorted(rng.sample(range(1, 160), rng.choice([1, 2, 3])))]
        plan["net"] = {
            "seed": rng.getrandbits(30),
            "lat": rng.choice([[0.0001, 0.0005], [0.0005, 0.003]]),
            "segment": seg,
            "max_parts": rng.choice([2, 3, 6]),
            "coalesce": rng.choice([0.0, 0.0, 0.5]),
            "gap": rng.choice([[0.0, 0.0], [0.0, 0.002], [0.001, 0.004]]),
        }
        rng9 = rng_for(seed, "C06-straddle", index)
        if index >= 656 and code == 0x10 and rng9.random() < 0.04:
            # a frame whose segments arrive 0.2 s apart after the connection has been idle for about I seconds, I around the
            # protocol's timer values: no timer of the client may fire "between" the parts of a frame and tear it apart
            idle = rng9.choice([0.5, 1.0, 2.0, 5.0, 10.0])
            req = reqs[0]
            plan["reactions"] = [[{"f": "ack", "echo": None, "d": 0.0, "join": False}, {"f": "data", "tag": new_tag(), "len": 2, "d": 0.0, "join": False}]]
            plan["ops"] = [{"op": "write", "data": req, "timeout": None}, {"op": "read", "timeout": 2.0}, {"op": "read", "timeout": idle + 3.0}]
            # every write of the gateway arrives in 1-3 parts, the first at once and the others 0.2 s later; the first exchange is
            # therefore over 0.0 / 0.2 / 0.4 s after the accept, and the long frame is sent so that the instant "idle seconds after
            # the previous frame" can fall between its parts
            plan["unsolicited"] = [{"at": round(idle + rng9.choice([-0.1, 0.1, 0.3]), 3), "frames": [{"f": "data", "tag": new_tag(), "len": 40, "d": 0.0, "join": False}]}]
            plan["net"]["segment"] = "random"
            plan["net"]["max_parts"] = rng9.choice([2, 3])
            plan["net"]["gap"] = [0.2, 0.2]
            plan["net"]["coalesce"] = 0.0
            plan["act"] = {"frames": [{"f": "act", "code": 0x10, "d": 0.0, "join": False}]}
            plan["straddle"] = idle
        return plan

    def simplify(self, plan: dict[str, Any]) -> Any:
        import copy

        if plan["net"]["segment"] != "whole":
            p = copy.deepcopy(plan)
            p["net"]["segment"] = "whole"
            yield p
        if plan["net"].get("coalesce"):
            p = copy.deepcopy(plan)
            p["net"]["coalesce"] = 0.0
            yield p
        if len(plan["act"]["frames"]) > 1:
            p = copy.deepcopy(plan)
            p["act"]["frames"] = [f for f in p["act"]["frames"] if f["f"] == "act"]
            yield p
        for ri, r in enumerate(plan["reactions"]):
            for fi, f in enumerate(r):
                if f.get("d", 0) not in (0.0, 0.001):
                    p = copy.deepcopy(plan)
                    p["reactions"][ri][fi]["d"] = 0.001
                    yield p
                if f.get("len"):
                    p = copy.deepcopy(plan)
                    p["reactions"][ri][fi]["len"] = 0
                    yield p

    def run(self, plan: dict[str, Any]) -> dict[str, Any]:
        res = new_result()
        uri = plan["uri"]
        proto = DoIPProto(uri["src_addr"], uri["target_addr"], uri["protocol_version"])
        holder: dict[str, Any] = {}

        async def main(loop: Any) -> Any:
            rec = Recorder(loop)
            net = SimNet(loop, seed=plan["net"]["seed"])
            net.policy_factory = G.make_policy(plan)
            net.install()
            holder.update(net=net, rec=rec)
            gw = G.Gateway(loop, net, proto, plan, rec)
            holder["gw"] = gw
            net.listen(("tcp", "gw", 13400), gw.handle)
            target = (
                f"doip://gw:13400?src_addr={uri['src_addr']:#x}&target_addr={uri['target_addr']:#x}"
                f"&activation_type={uri['activation_type']:#x}&protocol_version={uri['protocol_version']}"
            )
            rec.rec("connect_begin")
            try:
                tr = await DoIPTransport.connect(target)
            except ConnectionError as e:
                rec.rec("connect_end", out="conn", error=type(e).__name__)
                return "denied"
            except TimeoutError as e:
                rec.rec("connect_end", out="timeout", error=type(e).__name__)
                return "denied"
            except Exception as e:  # noqa: BLE001
                rec.rec("connect_end", out="other", error=type(e).__name__, msg=str(e)[:100])
                return "denied"
            rec.rec("connect_end", out="ok")
            holder["tr"] = tr
            await G.run_ops(tr, plan, rec)
            rec.rec("ops_done")
            for _ in range(2):
                try:
                    await tr.close()
                except Exception as e:  # noqa: BLE001
                    rec.rec("close_error", error=type(e).__name__)
                    holder["close_error"] = type(e).__name__
            return "done"

        try:
            out = sim_run(main, vcap=600.0, stepcap=1_000_000)
        finally:
            if "net" in holder:
                holder["net"].uninstall()
        rec: Recorder = holder["rec"]
        gw: G.Gateway = holder["gw"]
        events = rec.jsonable()
        res["trace"] = events + [["net"] + list(e) for e in holder["net"].events]
        res["vtime"] = out.vtime
        res["steps"] = out.steps
        gw.delivery_times()
        ops = G.collect_ops(events)
        if holder.get("close_error"):
            violation(res, "C06/close", f"C06/close-raised:{holder['close_error']}", f"close() at the end of the conversation raised {holder['close_error']}")
        if out.hung:
            violation(res, "C06/liveness", f"C06/liveness:{out.kind}", f"client never finished ({out.kind}); pending: {out.pending}")
        elif out.kind == "exc":
            raise out.exc  # type: ignore[misc]

        # ---- activation
        cb = next((e for e in events if e[3] == "connect_begin"), None)
        ce = next((e for e in events if e[3] == "connect_end"), None)
        first = gw.client_frames[0] if gw.client_frames else None
        want = struct.pack("!BBHLHBI", uri["protocol_version"], uri["protocol_version"] ^ 0xFF, 0x0005, 7, uri["src_addr"], uri["activation_type"], 0)
        if first is None or first["raw"] != want:
            got = first["raw"].hex() if first else None
            what = "activation-type" if first is not None and first["raw"][:12] == want[:10] + want[10:12] and first["raw"][10:11] != want[10:11] else "frame"
            if first is not None and first["raw"][:10] == want[:10] and first["raw"][10] != want[10]:
                what = "activation-type"
            violation(res, "C06/activation", f"C06/activation:wrong-{what}-on-wire",
                      f"first frame on the wire is {got}, expected {want.hex()} (configured activation type {uri['activation_type']:#x})")
        code = plan["act_code"]
        act_entry = next((e for e in gw.sent if e["cls"] == "activation"), None)
        if ce is not None and cb is not None:
            dur = ce[1] - cb[1]
            in_time = act_entry is not None and act_entry["t_del"] is not None and act_entry["t_del"] - cb[1] < ACT_TIME - G.EPS
            late = act_entry is None or act_entry["t_del"] is None or act_entry["t_del"] - cb[1] > ACT_TIME + G.EPS
            if code == 0x10 and in_time:
                if ce[4]["out"] != "ok":
                    violation(res, "C06/activation", f"C06/activation:success-code-but-connect-failed:{ce[4].get('error')}",
                              f"gateway answered 0x10 after {act_entry['t_del'] - cb[1]:.3f}s but connect() raised {ce[4]}")
            elif in_time or late:
                if ce[4]["out"] == "ok":
                    violation(res, "C06/activation", f"C06/activation:connect-succeeded-without-success-code:{code}",
                              f"connect() succeeded although the gateway answered {code} (in time: {in_time})")
                elif ce[4]["out"] != "conn":
                    violation(res, "C06/activation", f"C06/activation:denied-with-{ce[4]['out']}:{ce[4].get('error')}",
                              f"denied/missing activation must raise a connection error, got {ce[4]}")
                elif dur > ACT_TIME + G.SLACK + 0.01:
                    violation(res, "C06/activation", "C06/activation:late-error", f"connect() failed only after {dur:.3f}s")
            if ce[4]["out"] != "ok":
                bump(res["faults"], "activation_denied_or_missing")

        if "tr" in holder:
            G.judge_demux("C06", proto, gw, ops, res, ACK_TIME)
            closed_at = None
            for e in holder["net"].events:
                if e[2] == "close" and e[4] == "c":
                    closed_at = e[1]
                    break
            G.judge_alive("C06", proto, gw, ops, res, closed_at, out.vtime)
        shape = []
        for e in gw.sent:
            ph = "idle"
            for op in ops:
                if e["t_del"] is not None and op["t0"] <= e["t_del"] <= op.get("t1", 1e18):
                    ph = op["op"][0]
            shape.append(f"{e['cls']}@{ph}")
        outs = [f"{op['op'][0]}:{op['end']['out'] if op['end'] else 'hung'}" for op in ops]
        seg = plan["net"]["segment"]
        if plan.get("straddle"):
            bump(res["probes"], "frame_in_parts_0.2s_apart_after_an_idle_period_around_a_timer_value")
        res["shape"] = f"act{code}|" + ",".join(shape) + "|" + ",".join(outs) + "|" + (seg if isinstance(seg, str) else "split")
        nt = any(e["cls"] not in ("ack", "data_t", "activation") for e in gw.sent) or any(op["end"] and op["end"]["out"] != "ok" for op in ops if not op["arg"].get("drain")) or code != 0x10
        res["nontrivial"] = bool(nt or holder["net"].counters.get("segmented_writes"))
        for k, v in holder["net"].counters.items():
            if k in ("segmented_writes", "coalesced_writes"):
                bump(res["faults"], k, v)
        for e in gw.sent:
            if e["cls"] not in ("ack", "data_t", "activation"):
                bump(res["faults"], "frame_" + e["spec"]["f"])
        return res


def make() -> Check:
    return C06()
