"""One module per claimed property; `python -m simcheck <id> --tier quick|thorough`."""
