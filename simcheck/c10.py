"""C10 - service and identifier scans report what the ECU really supports, nothing else.

Real ServicesScanner and ScanIdentifiers commands through entry_point() against ModelECUs
(RandomUDSServer with an explicitly drawn services table) on SimNet.
"""

from __future__ import annotations

import logging
from pathlib import Path
from typing import Any

from simcheck.models import ModelECU
from simkit.cmdworld import CmdWorld
from simkit.harness import Check, bump, new_result, rng_for, violation
from simkit.net import Policy

from gallia.commands.scan.uds.identifiers import ScanIdentifiers, ScanIdentifiersConfig
from gallia.commands.scan.uds.services import ServicesScanner, ServicesScannerConfig
from gallia.services.uds.core import service

ISO_SIDS = [0x11, 0x14, 0x19, 0x22, 0x23, 0x24, 0x27, 0x28, 0x2A, 0x2C, 0x2E, 0x2F, 0x31, 0x34, 0x35, 0x36, 0x37, 0x38, 0x3D, 0x85, 0x83, 0x84, 0x86, 0x87, 0x29, 0x01, 0x09]
VENDOR_SIDS = [0xBA, 0xBB, 0xA0, 0x80, 0x3F, 0x0F, 0xBF]
SUBFUNC = {0x10, 0x11, 0x19, 0x27, 0x28, 0x2C, 0x31, 0x3E, 0x85}
PROBE_LENGTHS = [1, 2, 3, 5]


def gen_model(rng: Any, scanned_service: int | None) -> dict[str, Any]:
    n = rng.choice([1, 2, 3, 4])
    sessions = [1] + sorted(rng.sample(range(2, 0x7F), n - 1))
    model: dict[int, dict[int, Any]] = {}
    for s in sessions:
        sv: dict[int, Any] = {0x10: sorted(set(sessions if s == 1 or rng.random() < 0.5 else [1, s])), 0x3E: [0]}
        if rng.random() < 0.8:
            sv[0x11] = [1]
        for sid in ISO_SIDS:
            if sid in sv:
                continue
            if rng.random() < 0.25:
                if sid == 0x27:
                    subs = []
                    for k in range(1, 0x7E, 2):
                        if rng.random() < 0.1:
                            subs += [k, k + 1]
                    sv[sid] = subs
                elif sid == 0x31:
                    sv[sid] = [1, 2, 3]
                elif sid == 0x19:
                    sv[sid] = [2]
                elif sid in SUBFUNC:
                    sv[sid] = sorted(rng.sample(range(0 if sid not in (0x10, 0x11) else 1, 0x80), rng.choice([0, 1, 3, 10])))
                else:
                    sv[sid] = None
        for sid in VENDOR_SIDS:
            if rng.random() < 0.1:
                sv[sid] = None
        if scanned_service is not None and rng.random() < 0.75:
            if scanned_service == 0x27:
                subs = []
                for k in range(1, 0x7E, 2):
                    if rng.random() < 0.2:
                        subs += [k, k + 1]
                sv[0x27] = subs
            elif scanned_service == 0x31:
                sv[0x31] = [1, 2, 3]
            else:
                sv[scanned_service] = None
        model[s] = sv
    return {str(s): {str(k): v for k, v in sv.items()} for s, sv in model.items()}


def parse_skip(elems: list[str]) -> dict[int, list[int] | None]:
    """Independent reading of the --skip grammar: 'S' = whole session (wins over everything), 'S[-S2]:a,b-c'."""

    def ints(expr: str) -> list[int]:
        out: set[int] = set()
        for part in expr.split(","):
            if "-" in part:
                lo, hi = part.split("-")
                out.update(range(int(lo, 0), int(hi, 0) + 1))
            else:
                out.add(int(part, 0))
        return sorted(out)

    whole: set[int] = set()
    partial: dict[int, set[int]] = {}
    for el in elems:
        if ":" in el:
            outer, inner = el.split(":")
            for s in ints(outer):
                partial.setdefault(s, set()).update(ints(inner))
        else:
            whole.update(ints(el))
    res: dict[int, list[int] | None] = {s: sorted(v) for s, v in partial.items()}
    for s in whole:
        res[s] = None
    return res


class C10(Check):
    prop = "C10"
    level = "exploration"
    rule = (
        "ECU models (1-4 sessions, per-session service sets incl. services offered in no / other sessions only and vendor-specific ids, sub-function lists) x "
        "scanner {services, identifiers} x session lists incl. unreachable and repeated sessions / none x skip maps incl. 'whole session' x scan_response_ids x "
        "check_session (with ECUs that fall back to the default session when probed with 11 00, on their own after the k-th serviceNotSupported, or leave one recovery request unanswered) x reset x response-code quirks (implemented service answering every request with one fixed NRC; unimplemented service answering garbage; identifiers busy the first k times); identifier scan: service {0x22, 0x27, 0x2E, 0x31} x windows of 16-400 identifiers at drawn positions (0, 0xFFFF edge, end > 0x7F for "
        "0x27) x payload x p_identifier raised so that windows contain hits x latency/segmentation/tester-present phase. non-trivial = at least one finding / "
        "positive identifier and at least one service or session that must NOT be reported; distinct = (scanner, model shape, options, findings)."
    )
    assumptions = [
        "ground truth: the model ECU's own answers (services scan: answers of an independent copy of the model to the four probe payloads; identifier scan: the replies the ECU-side monitor saw)",
        "no message loss; latency well below the request timeout",
        "models never offer sub-function 0x00 of DiagnosticSessionControl / ECUReset: the all-zero probe payloads would then change the ECU state behind the scanner's back (what --check-session exists for)",
    ]
    components = {
        "ServicesScanner / ScanIdentifiers commands (entry_point), UDSScanner setup/teardown, ECU client, tcp-lines": "real",
        "ECU": "ModelECU = RandomUDSServer subclass with drawn services table; handle_client real",
    }
    shrink_lists: list[str] = []
    quick_runs = 800
    thorough_runs = 150000
    chunk = 2
    smoke_runs = 3

    def setup_process(self) -> None:
        pass

    def gen(self, seed: int, index: int, tier: str) -> dict[str, Any]:
        rng = rng_for(seed, "C10", index)
        plan: dict[str, Any] = {"prop": "C10", "index": index}
        plan["scanner"] = "services" if index % 2 == 0 else "identifiers"
        scanned = rng.choice([0x22, 0x27, 0x2E, 0x31]) if plan["scanner"] == "identifiers" else None
        plan["service"] = scanned
        plan["model"] = gen_model(rng, scanned)
        plan["ecu_seed"] = rng.getrandbits(32)
        sessions = sorted(int(s) for s in plan["model"])
        r = rng.random()
        if r < 0.2:
            plan["sessions"] = None
        else:
            cand = sessions + [rng.randrange(2, 0x7F)]
            k = rng.choice([1, 2, 3])
            plan["sessions"] = [rng.choice(cand) for _ in range(k)]
        skip: dict[str, Any] = {}
        if plan["sessions"] and rng.random() < 0.4:
            s = rng.choice(plan["sessions"])
            if rng.random() < 0.2:
                skip[str(s)] = None
            elif plan["scanner"] == "services":
                skip[str(s)] = sorted(rng.sample(range(0, 0x100), rng.choice([1, 5, 40])))
        plan["skip"] = skip
        plan["skip_expr"] = None
        if plan["sessions"] and rng.random() < 0.35:
            # range-expression form: "S" (whole session), "S:ids", "S1-S2:ids", several elements, any order
            elems = []
            cand_s = sorted(set(plan["sessions"]))
            for _ in range(rng.choice([1, 2, 3])):
                s0 = rng.choice(cand_s)
                form = rng.random()
                if form < 0.3:
                    elems.append(f"{s0:#x}")
                else:
                    if form < 0.6 or len(cand_s) < 2:
                        outer = f"{s0:#x}"
                    elif form < 0.8:
                        outer = f"{max(1, s0 - 1):#x}-{s0 + 1:#x}"
                    else:
                        # a range of sessions that really covers several requested sessions
                        a_, b_ = sorted(rng.sample(cand_s, 2))
                        outer = f"{a_:#x}-{b_:#x}"
                    if plan["scanner"] == "services":
                        a = rng.randrange(0, 0xF0)
                        inner = rng.choice([f"{a:#x}", f"{a:#x}-{a + rng.randrange(1, 12):#x}", f"{a:#x},{(a + 40) % 256:#x}", f"0x10-0x2f,{a}"])
                    else:
                        inner = "0x0-0x3"
                    elems.append(f"{outer}:{inner}")
            plan["skip_expr"] = elems
        plan["check_session"] = rng.random() < 0.25
        if plan["check_session"] and plan["scanner"] == "services" and rng.random() < 0.6:
            # an ECU that falls back to the default session when probed (ECUReset sub-function 0x00 offered):
            # exactly what --check-session is for; the session can be read (0x22 offered) and re-entered from the default session
            sessions_ = sorted(int(x) for x in plan["model"])
            for s_ in sessions_:
                sv = plan["model"][str(s_)]
                sv["17"] = sorted(set(sv.get("17") or []) | {0})
                sv["34"] = None
                if s_ == 1:
                    sv["16"] = sorted(set(sv["16"]) | set(sessions_))
            plan["drops_out"] = True
            plan["deaf_dsc"] = rng.random() < 0.4
            # ... and/or falls back on its own (session timer) in the middle of a run of unsupported ids
            plan["spont_drop"] = sorted(rng.sample(range(1, 180), rng.choice([1, 2, 4]))) if rng.random() < 0.5 else []
        plan["reset"] = rng.random() < 0.2
        # ECU model dimension: the reboot happens a little AFTER the positive response to ECUReset (inside the 0.5 s the client
        # waits before it pings the ECU again); not combined with ECUs that the all-zero probes reset behind the scanner's back
        plan["reset_delay"] = 0.0 if plan.get("drops_out") else rng.choice([0.0, 0.0, 0.004, 0.05, 0.3])
        plan["scan_response_ids"] = rng.random() < 0.25
        # model dimension "response code": implemented services that answer every request with one fixed NRC
        # (never one of the three that mean "not supported / wrong length")
        plan["quirks"] = []
        if plan["scanner"] == "services" and rng.random() < 0.3:
            cands = [(int(s_), int(k_)) for s_, sv_ in plan["model"].items() for k_ in sv_ if int(k_) not in (0x10, 0x11, 0x22, 0x3E)]
            for s_, k_ in rng.sample(cands, min(len(cands), rng.choice([1, 2, 3]))):
                plan["quirks"].append([s_, k_, rng.choice([0x21, 0x21, 0x22, 0x31, 0x33, 0x72, 0x12])])
        if plan["scanner"] == "identifiers":
            width = rng.choice([16, 64, 200, 400])
            if scanned == 0x27:
                start = rng.choice([0, 1, 0x40, 0x70])
                end = rng.choice([start + 5, 0x7F, 0xFF, 0x200])
            else:
                start = rng.choice([0, 0xF180, 0xFFFF - width + 1, rng.randrange(0, 0xFFFF - width)])
                end = min(0xFFFF, start + width - 1)
            plan["start"], plan["end"] = start, end
            if plan.get("skip_expr"):
                # identifier skips that lie inside (or far outside) the scanned window, several elements per session in any order
                rngs = rng_for(seed, "C10-idskip", index)
                new_elems = []
                for e_ in plan["skip_expr"]:
                    if ":" in e_:
                        lo_ = start + rngs.randrange(0, max(1, end - start))
                        inner_ = rngs.choice([f"{lo_:#x}-{min(end, lo_ + 3):#x}", f"{lo_:#x}", "0xf100-0xf1ff", f"{start:#x}-{min(end, start + 3):#x}", f"{max(start, end - 2):#x}-{end:#x}"])
                        new_elems.append(f"{e_.split(':')[0]}:{inner_}")
                    else:
                        new_elems.append(e_)
                plan["skip_expr"] = new_elems
            if plan["skip"] and rng.random() < 0.7 and plan["sessions"]:
                s = rng.choice(plan["sessions"])
                ids = sorted(rng.sample(range(start, min(end, start + 400) + 1), min(5, min(end, start + 400) - start + 1)))
                plan["skip"][str(s)] = ids
            plan["payload"] = rng.choice([None, None, "00", "0102"]) if scanned != 0x2E else rng.choice(["00", "0102", "ffffffff"])
        # ... and services the ECU does not implement but answers with garbage (a reply of another service, a truncated one)
        plan["garble"] = []
        if plan["scanner"] == "services" and rng.random() < 0.2:
            for _ in range(rng.choice([1, 2])):
                s_ = rng.choice(sorted(int(x) for x in plan["model"]))
                impl = {int(k_) for k_ in plan["model"][str(s_)]}
                k_ = rng.choice([x for x in range(1, 0x3E) if x not in impl and x not in (0x10, 0x11, 0x22, 0x27)])
                junk = rng.choice([bytes([0x62, 0xF1, 0x90, 0xAA]), bytes([0x7F, (k_ + 1) & 0xFF, 0x10]), bytes([0x7F]), bytes([(k_ + 0x41) & 0xFF, 0x00])])
                plan["garble"].append([s_, k_, junk.hex()])
        # identifiers answered busyRepeatRequest the first k times (the client repeats the request up to 3 times)
        plan["busy_first"] = []
        if plan["scanner"] == "identifiers" and rng.random() < 0.3:
            for _ in range(rng.choice([1, 2, 4])):
                did_ = rng.randrange(plan["start"], plan["end"] + 1)
                if did_ == 0xF186 and scanned == 0x22:
                    continue  # 22 F186 is also the scanner's own session read (--check-session): an ECU that stays busy there makes the scan give up, legitimately
                plan["busy_first"].append([did_, rng.choice([1, 2, 3, 3, 4, 6])])
        plan["p_identifier"] = rng.choice([0.05, 0.3, 1.0])
        plan["p_format"] = rng.choice([0.3, 1.0])
        plan["tp"] = rng.choice([None, 0.05, 0.5])
        plan["lat"] = rng.choice([[0.0001, 0.0005], [0.001, 0.004]])
        # now and then a message takes 0.12-0.22 s longer (more than a short tester-present interval; request AND reply delayed together stay below every timeout the client
        # uses: 0.5 s for the pings of wait_for_ecu, 1 s for requests); own stream of draws
        rng7 = rng_for(seed, "C10-spikes", index)
        plan["spike_p"] = rng7.choice([0.0, 0.0, 0.0, 0.01, 0.03])
        plan["segment"] = rng.choice(["whole", "random", "bytes"])
        plan["net_seed"] = rng.getrandbits(30)
        return plan

    def simplify(self, plan: dict[str, Any]) -> Any:
        import copy

        for key, val in (("check_session", False), ("reset", False), ("tp", None), ("segment", "whole"), ("scan_response_ids", False)):
            if key == "check_session" and plan.get("drops_out"):
                continue  # session-dropping models only make sense together with --check-session
            if plan.get(key) != val:
                p = copy.deepcopy(plan)
                p[key] = val
                yield p
        if plan["skip"]:
            p = copy.deepcopy(plan)
            p["skip"] = {}
            yield p
        if plan["sessions"] and len(plan["sessions"]) > 1:
            for k in range(len(plan["sessions"])):
                p = copy.deepcopy(plan)
                p["sessions"] = plan["sessions"][:k] + plan["sessions"][k + 1 :]
                yield p
        if plan["scanner"] == "identifiers" and plan["end"] - plan["start"] > 8:
            p = copy.deepcopy(plan)
            p["end"] = plan["start"] + (plan["end"] - plan["start"]) // 2
            yield p

    def run(self, plan: dict[str, Any]) -> dict[str, Any]:
        res = new_result()
        world = CmdWorld(seed=plan["net_seed"], log_level=20)
        try:
            self._run(plan, world, res)
        finally:
            world.uninstall()
            world.destroy()
        return res

    def _mk_ecu(self, plan: dict[str, Any]) -> ModelECU:
        model = {int(s): {int(k): v for k, v in sv.items()} for s, sv in plan["model"].items()}
        ecu = ModelECU(plan["ecu_seed"], model, {"p_identifier": plan["p_identifier"], "p_correct_payload_format": plan["p_format"]})
        ecu.quirks = {(s_, k_): n_ for s_, k_, n_ in plan.get("quirks") or []}
        ecu.spont_drop = set(plan.get("spont_drop") or [])
        ecu.reset_delay = plan.get("reset_delay", 0.0)
        ecu.garble = {(s_, k_): bytes.fromhex(j_) for s_, k_, j_ in plan.get("garble") or []}
        for did, k in plan.get("busy_first") or []:
            for pdu in self._id_probes(plan, did):
                ecu.busy_first[pdu] = k
        if plan.get("deaf_dsc"):
            # after it fell back to the default session (reset), the ECU ignores the next session change request once
            orig = ecu.respond
            state = {"armed": False, "done": False}

            async def respond(request: Any) -> Any:
                pdu = request.pdu
                if pdu[:2] == b"\x11\x00":
                    state["armed"] = True
                if state["armed"] and not state["done"] and pdu[:1] == b"\x10" and len(pdu) == 2 and pdu[1] != 0:
                    state["done"] = True
                    ecu.monitor.saw(ecu.state.session, pdu)
                    ecu.replies.append((ecu.state.session, bytes(pdu), None))
                    ecu.deaf_fired = True
                    return None
                return await orig(request)

            ecu.respond = respond  # type: ignore[method-assign]
        return ecu

    @staticmethod
    def _id_probes(plan: dict[str, Any], did: int) -> list[bytes]:
        svc = plan["service"]
        payload = bytes.fromhex(plan["payload"]) if plan.get("payload") else b""
        if svc == 0x27:
            return [bytes([svc, did & 0xFF]) + payload]
        if svc == 0x31:
            return [bytes([svc, sf, did >> 8, did & 0xFF]) + payload for sf in (1, 2, 3)]
        return [bytes([svc, did >> 8, did & 0xFF]) + payload]

    def _run(self, plan: dict[str, Any], world: CmdWorld, res: dict[str, Any]) -> None:
        world.net.policy_factory = lambda i, d: Policy(seed=plan["net_seed"] + 2 * i + (d == "s2c"), segment=plan["segment"], lat_min=plan["lat"][0], lat_max=plan["lat"][1],
                                                           spike_p=plan.get("spike_p", 0.0), spike_min=0.12, spike_max=0.22)
        world.install(capture=lambda r: getattr(r, "tags", None) == ["result"])
        model = {int(s): {int(k): v for k, v in sv.items()} for s, sv in plan["model"].items()}
        ecu = self._mk_ecu(plan)
        skip = {int(k): v for k, v in plan["skip"].items()}
        skip_arg: Any = skip
        if plan.get("skip_expr"):
            skip = parse_skip(plan["skip_expr"])
            skip_arg = list(plan["skip_expr"])
        common: dict[str, Any] = dict(target="tcp-lines://ecu:1", dumpcap=False, sessions=plan["sessions"], skip=skip_arg,
                                      tester_present=plan["tp"] is not None, tester_present_interval=plan["tp"] or 0.5, timeout=1.0)
        if plan["scanner"] == "services":
            cfg: Any = ServicesScannerConfig(check_session=plan["check_session"], reset=1 if plan["reset"] else None, scan_response_ids=plan["scan_response_ids"], **common)
            factory: Any = lambda: ServicesScanner(cfg)
        else:
            cfg = ScanIdentifiersConfig(service=plan["service"], start=plan["start"], end=plan["end"], payload=plan["payload"],
                                        check_session=1 if plan["check_session"] else None, **common)
            factory = lambda: ScanIdentifiers(cfg)
        holder: dict[str, Any] = {}

        async def main() -> int:
            await world.start_vecu(ecu, "tcp://ecu:1")
            cmd = factory()
            holder["cmd"] = cmd
            return await cmd.entry_point()

        out = world.run_cli(main, vcap=4000.0, stepcap=40_000_000)
        res["vtime"] = out["vtime"]
        res["steps"] = out["steps"]
        msgs = [r.getMessage() for r in world.records]
        res["trace"] = msgs[:400] + [[s, p.hex(), r.hex() if r else None] for s, p, r in ecu.replies[:3000]]
        if out["kind"] == "hung":
            violation(res, "C10/termination", f"C10/termination:{plan['scanner']}", f"scan did not terminate: {out['pending'][:3]}")
            return
        if out["kind"] not in ("return", "SystemExit") and not (out["kind"] == "return"):
            violation(res, "C10/exit", f"C10/exit:{plan['scanner']}:{out['kind']}", f"scan ended with {out['kind']} {out.get('exc')!r}")
            return
        deaf = bool(getattr(ecu, "deaf_fired", False))
        if deaf:
            bump(res["faults"], "session_recovery_request_unanswered")
        if out["exit"] not in (0, 1) and not (deaf and out["exit"] in (70, 74)):
            violation(res, "C10/exit", f"C10/exit:{plan['scanner']}:{out['exit']}", f"scan ended with exit code {out['exit']} ({out.get('exc')!r})")
            return
        # which sessions does the model say can be entered, in the order requested
        sess_list = plan["sessions"]
        if plan["scanner"] == "services":
            self._judge_services(plan, model, skip, ecu, holder["cmd"], res, out, aborted=deaf)
        else:
            self._judge_identifiers(plan, model, skip, ecu, msgs, res, out)
        res["shape"] = f"{plan['scanner']}|{plan.get('service')}|n{len(model)}|sess{sess_list}|skip{len(skip)}|{'C' if plan['check_session'] else ''}{'R' if plan['reset'] else ''}{'I' if plan['scan_response_ids'] else ''}|{res['note'].get('summary', '')}"
        if plan["check_session"]:
            bump(res["faults"], "check_session")
        if plan.get("drops_out"):
            bump(res["faults"], "ecu_drops_out_of_session_on_probe")
        if plan.get("skip_expr"):
            bump(res["faults"], "skip_as_range_expression")
        if world.net.counters.get("latency_spikes"):
            bump(res["faults"], "latency_spikes_below_every_timeout", world.net.counters["latency_spikes"])
        if getattr(ecu, "late_resets", 0):
            bump(res["faults"], "ecu_reboots_after_acknowledging_the_reset", ecu.late_resets)
        if getattr(ecu, "spont_fired", 0):
            bump(res["faults"], "ecu_fell_back_to_default_session_on_its_own", ecu.spont_fired)
        if plan.get("quirks"):
            bump(res["faults"], "service_with_fixed_negative_response_code")
        if plan.get("busy_first"):
            bump(res["faults"], "identifier_busy_at_first")
        if plan["tp"] is not None:
            bump(res["faults"], "tester_present_worker")

    # ---------------------------------------------------------------------------------------------
    def _walk_sessions(self, plan: dict[str, Any], model: dict[int, dict[int, Any]], skip: dict[int, Any], reset_each: bool) -> list[int]:
        """Sessions the scanner can really enter, in order (model of the ECU, not of the scanner)."""
        cur = 1
        entered = []
        for s in plan["sessions"]:
            if s in skip and skip[s] is None:
                continue
            if s in (model.get(cur, {}).get(0x10) or []):
                cur = s
                entered.append(s)
                if reset_each and 0x11 in model.get(cur, {}) and 1 in (model[cur][0x11] or []):
                    cur = 1
        return entered

    def _judge_services(self, plan: dict[str, Any], model: dict[int, dict[int, Any]], skip: dict[int, Any], ecu: ModelECU, cmd: Any, res: dict[str, Any], out: dict[str, Any], aborted: bool = False) -> None:
        import asyncio

        if plan["sessions"] is None:
            scanned = [(0, 1)]  # (key in result, real session)
        else:
            scanned = [(s, s) for s in self._walk_sessions(plan, model, skip, plan["reset"])]
        got: dict[int, set[int]] = {}
        for key, sid in cmd.result:
            got.setdefault(key, set()).add(sid)
        want_keys = {k for k, _ in scanned}
        if set(got) - want_keys and not aborted:
            violation(res, "C10/services", "C10/services:findings-for-unentered-session", f"findings reported for sessions {sorted(set(got) - want_keys)} which cannot be entered (model sessions {sorted(model)})")
        # independent copy of the model answers the probes
        copy = self._mk_ecu(plan)
        copy.randomize()

        def answers(session: int, sid: int) -> list[bytes | None]:
            outl = []
            for ln in PROBE_LENGTHS:
                pdu = bytes([sid]) + bytes(ln)
                copy.state.reset()
                copy.state.session = session
                loop = asyncio.new_event_loop()
                try:
                    r = loop.run_until_complete(copy.respond(service.UDSRequest.parse_dynamic(pdu)))
                finally:
                    loop.close()
                outl.append(r.pdu if r is not None else None)
            return outl

        n_found = 0
        n_not = 0
        for key, sess in scanned:
            implemented = set(model[sess])
            skipped = set(skip.get(key) or []) if key in skip else set()
            expected_probed = {sid for sid in range(256) if (plan["scan_response_ids"] or not sid & 0x40) and sid not in skipped}
            reported = got.get(key, set())
            extra = {sid for sid in reported if sid not in implemented}
            if extra:
                violation(res, "C10/services", "C10/services:reported-but-not-implemented", f"session {sess:#x}: reported {sorted(map(hex, extra))} which the ECU does not implement there")
            for sid in sorted(implemented & expected_probed):
                ans = answers(sess, sid)
                meaningful = any(a is not None and not (a[0] == 0x7F and len(a) == 3 and a[2] in (0x11, 0x7F, 0x13)) for a in ans)
                # the scan stops at the first 0x11/0x7F answer; an implemented service never gets those
                if meaningful and sid not in reported and not aborted:
                    violation(res, "C10/services", "C10/services:implemented-but-not-reported", f"session {sess:#x}: service {sid:#x} answers the probes with {[a.hex() if a else None for a in ans]} but was not reported")
                if meaningful:
                    n_found += 1
            if reported & skipped:
                violation(res, "C10/services", "C10/services:skipped-id-reported", f"session {sess:#x}: skipped ids reported {sorted(reported & skipped)}")
            # every expected sid probed in the claimed session; skipped / response ids never probed there
            probed_here = {p[0] for s, p, _ in ecu.replies if s == sess and len(p) in (2, 3, 4, 6) and p[1:] == bytes(len(p) - 1)}
            missing = expected_probed - probed_here
            if aborted:
                # a request went unanswered: the scan of a session may stop early (or never start), but it must not leave gaps:
                # ids are probed in ascending order, each in the claimed session
                # (3E 00 may be the start-up ping or the cyclic tester-present worker rather than a probe)
                last = max((probed_here & expected_probed) - {0x3E}, default=-1)
                missing = {m for m in missing if m < last}
            if missing:
                violation(res, "C10/probes", f"C10/probes:not-probed-in-claimed-session:{'response-ids' if all(m & 0x40 for m in missing) else 'ids'}",
                          f"session {sess:#x}: service ids {sorted(map(hex, missing))[:12]} were never probed while the ECU was in that session")
            n_not += len(expected_probed - implemented)
        for key, sess in scanned:
            skipped = set(skip.get(key) or []) if key in skip else set()
            hit = {p[0] for s, p, _ in ecu.replies if len(p) in (2, 3, 4, 6) and p[1:] == bytes(len(p) - 1) and s == sess and p[0] in skipped and p[0] not in (0x10, 0x3E, 0x11, 0x22)}
            if hit:
                violation(res, "C10/probes", "C10/probes:skipped-id-on-the-wire", f"session {sess:#x}: skipped ids {sorted(map(hex, hit))} were sent")
        if not plan["scan_response_ids"]:
            resp_ids = {p[0] for s, p, _ in ecu.replies if p[0] & 0x40 and len(p) in (2, 3, 4, 6) and p[1:] == bytes(len(p) - 1)}
            if resp_ids:
                violation(res, "C10/probes", "C10/probes:response-ids-probed", f"response ids {sorted(map(hex, resp_ids))[:8]} were probed although not asked for")
        unreachable = plan["sessions"] is not None and len(scanned) < len([s for s in plan["sessions"] if not (s in skip and skip[s] is None)])
        # a reply that cannot belong to the probe is reported as a problem of the scan (exit code 1), never as a finding
        garbled = any(
            sess == gs and gk not in (set(skip.get(key) or []) if key in skip else set()) and (plan["scan_response_ids"] or not gk & 0x40)
            for key, sess in scanned for gs, gk, _ in plan.get("garble") or []
        )
        if garbled:
            bump(res["faults"], "unimplemented_service_answers_garbage")
        want_exit = 1 if unreachable or garbled else 0
        if out["exit"] != want_exit and not aborted:
            violation(res, "C10/exit", f"C10/exit:services:{out['exit']}-want-{want_exit}", f"exit code {out['exit']}, expected {want_exit} (sessions {plan['sessions']}, entered {[s for _, s in scanned]})")
        res["nontrivial"] = n_found > 0 and (n_not > 0 or unreachable)
        res["note"]["summary"] = f"f{n_found}"
        if unreachable:
            bump(res["probes"], "session_not_enterable")

    def _judge_identifiers(self, plan: dict[str, Any], model: dict[int, dict[int, Any]], skip: dict[int, Any], ecu: ModelECU, msgs: list[str], res: dict[str, Any], out: dict[str, Any]) -> None:
        svc = plan["service"]
        start, end = plan["start"], plan["end"]
        if svc == 0x27 and end > 0x7F:
            end = 0x7F
        subs = [1, 2, 3] if svc == 0x31 else [0]
        payload = bytes.fromhex(plan["payload"]) if plan["payload"] else b""
        # reported counts per session, from the result-tagged records
        reported: list[tuple[int | None, int]] = []
        cur: int | None = None
        for m in msgs:
            if m.startswith("Starting scan in session:"):
                cur = int(m.split(":")[1].strip(), 0)
            elif m.startswith("Positive replies:"):
                reported.append((cur, int(m.split(":")[1])))
        if plan["sessions"] is None:
            entered: list[int | None] = [None]
        else:
            # leave_session() resets the ECU (or falls back to session 1) after every scanned session
            entered = []
            cur_s = 1
            for s in plan["sessions"]:
                if s in skip and skip[s] is None:
                    continue
                if s in (model.get(cur_s, {}).get(0x10) or []):
                    entered.append(s)
                    cur_s = 1
        if [r[0] for r in reported] != entered:
            violation(res, "C10/identifiers", "C10/identifiers:scanned-sessions", f"scan reported counts for sessions {[r[0] for r in reported]}, the model allows entering {entered} (requested {plan['sessions']})")
            return
        # walk the ECU-side log: probes of each scanned session, in order
        log = ecu.replies
        pos = 0
        total_pos = 0
        for (sess_key, count) in reported:
            real = 1 if sess_key is None else sess_key
            skipped = set(skip.get(sess_key) or []) if sess_key in skip else set()
            expect = []
            for did in range(start, end + 1):
                if did in skipped:
                    continue
                for sf in subs:
                    if svc == 0x27:
                        pdu = bytes([svc, did])
                    elif svc == 0x31:
                        pdu = bytes([svc, sf, did >> 8, did & 0xFF])
                    else:
                        pdu = bytes([svc, did >> 8, did & 0xFF])
                    expect.append(pdu + payload)
            positives = 0
            k = 0
            # find the expected probes in order; other traffic (tester present, session checks, resets) may interleave
            for pdu in expect:
                found = None
                j = pos
                while j < len(log):
                    if log[j][1] == pdu:
                        found = j
                        break
                    j += 1
                if found is None:
                    violation(res, "C10/identifiers", "C10/identifiers:identifier-not-probed", f"session {real:#x}: identifier probe {pdu.hex()} never reached the ECU (range {start:#x}-{end:#x})")
                    return
                # a request the ECU called busy is repeated by the client: the answer to the last repeat is the one that counts
                # (repeats happen inside one request, under the client mutex: nothing can come between them)
                while found + 1 < len(log) and log[found + 1][1] == pdu:
                    found += 1
                s_before, _, rep = log[found]
                if s_before != real:
                    violation(res, "C10/identifiers", "C10/identifiers:probed-in-wrong-session", f"probe {pdu.hex()} arrived while the ECU was in session {s_before:#x}, claimed {real:#x}")
                    return
                if rep is not None and rep[0] != 0x7F:
                    positives += 1
                pos = found + 1
                k += 1
            if count != positives:
                violation(res, "C10/identifiers", f"C10/identifiers:positive-count:{'over' if count > positives else 'under'}",
                          f"session {real:#x} service {svc:#x}: scan counted {count} positive replies, the ECU sent {positives} for identifiers {start:#x}-{end:#x} (skipped {len(skipped)})")
            total_pos += positives
            # skipped identifiers never hit the wire in that session
            for did in skipped:
                if not start <= did <= end:
                    continue
                for sf in subs:
                    pdu = (bytes([svc, did]) if svc == 0x27 else bytes([svc, sf, did >> 8, did & 0xFF]) if svc == 0x31 else bytes([svc, did >> 8, did & 0xFF])) + payload
                    if any(p == pdu and s == real for s, p, _ in log) and not (svc == 0x22 and did == 0xF186):
                        violation(res, "C10/identifiers", "C10/identifiers:skipped-id-on-the-wire", f"skipped identifier {did:#x} was sent in session {real:#x}")
                        return
        # nothing outside the range
        res["nontrivial"] = total_pos > 0
        res["note"]["summary"] = f"p{min(total_pos, 9)}"
        if total_pos:
            bump(res["probes"], "identifier_windows_with_hits")


def make() -> Check:
    return C10()
