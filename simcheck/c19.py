"""C19 - line-based transports deliver every message intact, in order, one per read.

World B: (a) real TCPLinesTransport / UnixLinesTransport against a raw scripted peer,
(b) real TCPUDSServerTransport.handle_client (and the unix variant) against a raw scripted
client, (c) both halves together.  The simulator owns segmentation, coalescing and the
instants at which segments arrive relative to read timeouts.
"""

from __future__ import annotations

import asyncio
from typing import Any

from simkit.harness import Check, bump, new_result, rng_for, violation
from simkit.loop import sim_run
from simkit.net import Policy, SimNet
from simkit.world import Recorder, quiet_logging

from gallia.services.uds.server import TCPUDSServerTransport, UnixUDSServerTransport
from gallia.transports import TargetURI
from gallia.transports.tcp import TCPLinesTransport
from gallia.transports.unix import UnixLinesTransport


def transform(req: bytes) -> bytes | None:
    """Deterministic reply of the echo server: None (silence) for requests starting with 0x00."""
    if req[0] == 0x00:
        return None
    return bytes([req[0] ^ 0xFF]) + req[::-1]


MARK = bytes.fromhex("eeeeeeee")


class _EchoReply:
    def __init__(self, pdu: bytes) -> None:
        self.pdu = pdu

    def __repr__(self) -> str:
        return f"echo({len(self.pdu)} bytes)"


class _EchoState:
    def reset(self) -> None:
        pass


class _EchoECU:
    """The ECU behind gallia's server transport: answers every request with its transform, some with silence."""

    def __init__(self, seen: list[bytes], think: float) -> None:
        self.seen = seen
        self.think = think
        self.state = _EchoState()

    async def respond(self, request: Any) -> Any:
        pdu = bytes(request.pdu)
        self.seen.append(pdu)
        if self.think:
            await asyncio.sleep(self.think)  # a server that needs time per request (e.g. the database-backed one)
        out = transform(pdu)
        return _EchoReply(out) if out is not None else None


def make_server_class(base: type) -> type:
    class EchoTransport(base):  # type: ignore[misc, valid-type]
        """gallia's real connection loop AND its real handle_request(); only the ECU object behind them is a stub."""

        def __init__(self, target: TargetURI, seen: list[bytes], think: float = 0.0) -> None:
            super().__init__(_EchoECU(seen, think), target)  # type: ignore[arg-type]

    return EchoTransport


def gen_msgs(rng: Any, n: int, big: bool) -> list[str]:
    out = []
    for _ in range(n):
        ln = rng.choice([1, 1, 2, 3, 4, 7, 16, 64] + ([4095, 1000] if big else []))
        kind = rng.random()
        if kind < 0.1:
            b = bytes([rng.choice([0x0A, 0x0D, 0x20, 0x00, 0xFF, 0x30])] * ln)
        else:
            b = bytes(rng.getrandbits(8) for _ in range(ln))
        if b[0] == 0x00 and rng.random() < 0.7:
            b = bytes([0x01]) + b[1:]
        out.append(b.hex())
    return out


def stream_of(msgs: list[str]) -> bytes:
    return b"".join(m.encode() + b"\n" for m in msgs)


class C19(Check):
    prop = "C19"
    level = "fault_enumeration"
    rule = (
        "message sequences (lengths {1,2,3,4,7,16,64,1000,4095}, all byte values incl. runs of 0x0a/0x0d/0x20/0x00, bursts of 1-200) x an explicit "
        "segment list over the whole byte stream (every single split offset stratified for the low indices, byte-by-byte, random multi-split, "
        "2-50 messages coalesced per segment) x inter-segment gaps {0, 1 ms, 0.3 s} x read timeouts {0.2 s, 1 s} so that timeouts fall between two "
        "segments of one line x mode {client half tcp/unix, server loop tcp/unix, both halves} x EOF at a line boundary x slow node (loop iterations that cost 0.5-350 ms of virtual time, so deadlines are noticed late) x a second tester connected to the same server loop at the same time. non-trivial = a split inside "
        "a line, a coalesced segment or a read timeout in mid-line; distinct = (mode, segment pattern class per message, timeout positions)."
    )
    assumptions = [
        "messages are 1..4095 bytes (line <= 8191 < StreamReader limit); zero-length messages are not generated",
        "the echo server replaces only the UDS layer (handle_request); the connection loop handle_client is gallia's",
        "EOF in the middle of a line is C08's subject (fabricated data), not generated here",
    ]
    components = {
        "LinesTransportMixin.read/write, TCPLinesTransport, UnixLinesTransport": "real",
        "TCPUDSServerTransport.handle_client / UnixUDSServerTransport, UDSServerTransport.handle_request": "real (the ECU object behind them is an echo stub)",
        "asyncio StreamReader/StreamWriter": "real on SimNet transport",
        "peer (raw client / raw server)": "stub",
    }
    shrink_lists = ["msgs", "segs", "reads"]
    quick_runs = 50000
    thorough_runs = 2000000
    chunk = 250

    def setup_process(self) -> None:
        quiet_logging()

    def gen(self, seed: int, index: int, tier: str) -> dict[str, Any]:
        rng = rng_for(seed, "C19", index)
        plan: dict[str, Any] = {"prop": "C19", "index": index}
        mode = ["client", "server", "both"][index % 3] if index < 600 else rng.choice(["client", "client", "server", "server", "both"])
        plan["mode"] = mode
        plan["scheme"] = rng.choice(["tcp", "unix"])
        burst = rng.random() < 0.08
        n = rng.choice([1, 1, 2, 3, 5, 8]) if not burst else rng.choice([50, 120, 200] if tier == "quick" else [200, 500, 1000])
        big = rng.random() < 0.1 and not burst
        msgs = gen_msgs(rng, n, big)
        plan["msgs"] = msgs
        total = len(stream_of(msgs))
        # explicit segmentation of the stream that flows *towards the code under test*
        if index < 600:
            # every single split offset of a short conversation, timeout placed between the halves
            k = (index // 3) % max(total, 1)
            offs = [k] if 0 < k < total else []
            plan["segs"] = [{"at": o, "gap": 0.3} for o in offs]
        else:
            r = rng.random()
            if r < 0.2:
                offs = []
            elif r < 0.35 and total <= 600:
                offs = list(range(1, total))
            else:
                offs = sorted(rng.sample(range(1, total), min(total - 1, rng.choice([1, 2, 3, 5, 9])))) if total > 1 else []
            plan["segs"] = [{"at": o, "gap": rng.choice([0.0, 0.0, 0.001, 0.3])} for o in offs]
        plan["first_gap"] = rng.choice([0.0, 0.001, 0.3])
        plan["reads"] = [rng.choice([0.2, 0.2, 1.0]) for _ in range(rng.choice([0, 1, 2, 4]))]
        plan["eof"] = rng.random() < 0.5
        plan["late_drain"] = rng.choice([0.0, 0.0, 0.05])
        plan["srv_think"] = rng.choice([0.0, 0.0, 0.0005, 0.01])
        plan["half_close"] = rng.random() < 0.5
        plan["lat"] = rng.choice([[0.0001, 0.0004], [0.0005, 0.002]])
        plan["net_seed"] = rng.getrandbits(30)
        # slow node: some loop iterations cost virtual time (another callback kept the CPU), so deadlines are noticed late
        plan["stall"] = rng.choice([0.0, 0.0, 0.0, 0.05, 0.25])
        plan["untimed"] = rng.random() < 0.3  # reads without a timeout after the timed ones
        plan["peer_reads_late"] = rng.choice([0.0, 0.0, 0.0, 60.0])
        # a second tester connected to the same server loop at the same time (its messages carry a marker)
        plan["bystander"] = {"at": rng.choice([0.0, 0.0004, 0.3]), "n": rng.choice([1, 3, 8]), "gap": rng.choice([0.0, 0.0007, 0.1])} if rng.random() < 0.3 else None
        # the opposite direction (produced by the code under test) gets a random network segmentation
        plan["back_segment"] = rng.choice(["whole", "random", "bytes"]) if total < 2000 else rng.choice(["whole", "random"])
        return plan

    def simplify(self, plan: dict[str, Any]) -> Any:
        import copy

        if plan["scheme"] != "tcp":
            p = copy.deepcopy(plan)
            p["scheme"] = "tcp"
            yield p
        if plan["back_segment"] != "whole":
            p = copy.deepcopy(plan)
            p["back_segment"] = "whole"
            yield p
        for i, m in enumerate(plan["msgs"]):
            if len(m) > 4:
                p = copy.deepcopy(plan)
                p["msgs"][i] = m[:4]
                p["segs"] = [s for s in p["segs"] if s["at"] < len(stream_of(p["msgs"]))]
                yield p

    # ------------------------------------------------------------------------------------------
    def run(self, plan: dict[str, Any]) -> dict[str, Any]:
        res = new_result()
        msgs = [bytes.fromhex(m) for m in plan["msgs"]]
        if not msgs:
            return res
        total = len(stream_of(plan["msgs"]))
        segs = [s for s in plan["segs"] if 0 < s["at"] < total]
        holder: dict[str, Any] = {}
        uri = "tcp://h:1" if plan["scheme"] == "tcp" else "unix:///sim/vecu.sock"
        curi = ("tcp-lines://h:1" if plan["scheme"] == "tcp" else "unix-lines:///sim/vecu.sock")
        addr = ("tcp", "h", 1) if plan["scheme"] == "tcp" else ("unix", "/sim/vecu.sock")
        mode = plan["mode"]

        def policy(i: int, d: str) -> Policy:
            # bytes towards the code under test are segmented explicitly by the scripted side
            return Policy(seed=plan["net_seed"] + 2 * i + (d == "s2c"), lat_min=plan["lat"][0], lat_max=plan["lat"][1],
                          segment="whole" if holder["scripted_dir"] == d else plan["back_segment"], max_parts=5)

        async def send_segmented(writer: asyncio.StreamWriter, stream: bytes) -> None:
            await asyncio.sleep(plan["first_gap"])
            pos = 0
            for s in segs + [{"at": len(stream), "gap": 0.0}]:
                if s["at"] <= pos:
                    continue
                writer.write(stream[pos : s["at"]])
                pos = s["at"]
                if s["gap"]:
                    await asyncio.sleep(s["gap"])
            await writer.drain()

        async def main(loop: Any) -> Any:
            rec = Recorder(loop)
            if plan.get("stall"):
                import random as _random

                srng = _random.Random(plan["net_seed"] ^ 0x5A11)
                loop.stall_rng = srng
                loop.stall_dt = lambda: srng.choice([0.0005, 0.02, 0.12, 0.35])
                loop.stall_p = plan["stall"]
                holder["loop"] = loop
            net = SimNet(loop, seed=plan["net_seed"])
            net.policy_factory = policy
            net.install()
            holder.update(net=net, rec=rec)
            got: list[Any] = []
            holder["got"] = got
            if mode == "client":
                holder["scripted_dir"] = "s2c"
                peer_rx = bytearray()
                holder["peer_rx"] = peer_rx
                done = loop.create_future()

                async def peer(reader: asyncio.StreamReader, writer: asyncio.StreamWriter) -> None:
                    async def rx() -> None:
                        if plan.get("peer_reads_late"):
                            # a peer that gets round to reading only after the client has long closed: everything the
                            # client wrote before it closed must still be there
                            await asyncio.sleep(plan["peer_reads_late"])
                        while True:
                            c = await reader.read(65536)
                            if not c:
                                break
                            peer_rx.extend(c)

                    t = loop.create_task(rx())
                    loop.keep.append(t)
                    await send_segmented(writer, stream_of(plan["msgs"]))
                    if plan["eof"]:
                        await asyncio.sleep(0.01)
                        writer.close()
                    if not done.done():
                        done.set_result(None)

                net.listen(addr, peer)
                cls = TCPLinesTransport if plan["scheme"] == "tcp" else UnixLinesTransport
                tr = await cls.connect(curi)
                # the client also writes its own messages (reverse direction, network-segmented)
                for m in msgs:
                    await tr.write(m)
                for T in plan["reads"]:
                    await self._read(tr, T, rec, got)
                await done
                if plan.get("late_drain"):
                    # a reader that comes late: complete lines and the peer's close are already buffered
                    await asyncio.sleep(plan["late_drain"])
                # drain: long timeouts until everything arrived (or EOF / error); with "untimed" a read without timeout
                # while messages are still to come (it must return the complete next message just like a timed one)
                for _ in range(len(msgs) + 2):
                    n_data = sum(1 for g_ in got if isinstance(g_, bytes) and g_ != b"")
                    T_: Any = None if plan.get("untimed") and n_data < len(msgs) else 2.0
                    out = await self._read(tr, T_, rec, got)
                    if out != "ok" or (got and got[-1] == b""):
                        break
                await tr.close()
                await asyncio.sleep(0.05 + (plan.get("peer_reads_late") or 0.0) * 1.1)
                return None
            # server modes
            seen: list[bytes] = []
            holder["seen"] = seen
            base = TCPUDSServerTransport if plan["scheme"] == "tcp" else UnixUDSServerTransport
            srv = make_server_class(base)(TargetURI(uri), seen, plan.get("srv_think", 0.0))
            srv_task = loop.create_task(srv.run())
            loop.keep.append(srv_task)
            await asyncio.sleep(0)
            if mode == "server":
                holder["scripted_dir"] = "c2s"
                if plan["scheme"] == "tcp":
                    reader, writer = await asyncio.open_connection("h", 1)
                else:
                    reader, writer = await asyncio.open_unix_connection("/sim/vecu.sock")
                rx = bytearray()
                holder["client_rx"] = rx

                async def rxloop() -> None:
                    while True:
                        c = await reader.read(65536)
                        if not c:
                            break
                        rx.extend(c)

                t = loop.create_task(rxloop())
                loop.keep.append(t)
                by = plan.get("bystander")
                by_rx = bytearray()
                holder["by_rx"] = by_rx
                by_state: dict[str, Any] = {"done": by is None}

                async def bystander() -> None:
                    await asyncio.sleep(by["at"])
                    if plan["scheme"] == "tcp":
                        r2, w2 = await asyncio.open_connection("h", 1)
                    else:
                        r2, w2 = await asyncio.open_unix_connection("/sim/vecu.sock")

                    async def rx2() -> None:
                        while True:
                            c = await r2.read(65536)
                            if not c:
                                break
                            by_rx.extend(c)

                    t2 = loop.create_task(rx2())
                    loop.keep.append(t2)
                    for i in range(by["n"]):
                        w2.write((MARK + bytes([i + 1])).hex().encode() + b"\n")
                        await w2.drain()
                        if by["gap"]:
                            await asyncio.sleep(by["gap"])
                    by_state["w"] = w2
                    by_state["done"] = True

                if by is not None:
                    bt = loop.create_task(bystander())
                    loop.keep.append(bt)
                n_replies = sum(1 for m_ in msgs if transform(m_) is not None)

                async def settle() -> None:
                    # give the server the time it needs; on a slow node (stalls) that is longer: wait for the work to be
                    # done, up to a cap that only a lost message can reach
                    await asyncio.sleep(1.0 + len(msgs) * plan.get("srv_think", 0.0))
                    waited = 0.0
                    n_by = by["n"] if by is not None else 0
                    while (plan.get("stall") or by is not None) and waited < 120.0 and (
                        not by_state["done"] or len(seen) < len(msgs) + n_by or rx.count(b"\n") < n_replies or by_rx.count(b"\n") < n_by
                    ):
                        await asyncio.sleep(0.25)
                        waited += 0.25

                await send_segmented(writer, stream_of(plan["msgs"]))
                if plan.get("half_close"):
                    # pipelined requests followed by a half-close: the end of stream may already be buffered
                    # when the server loop reads the last line
                    writer.write_eof()
                    await settle()
                else:
                    await settle()
                    holder["handler_done_before_close"] = [h.done() for h in net.handler_tasks]
                writer.close()
                if by_state.get("w") is not None:
                    by_state["w"].close()
                await asyncio.sleep(0.05)
                return None
            # both halves: real client transport against the real server loop
            holder["scripted_dir"] = "none"
            cls = TCPLinesTransport if plan["scheme"] == "tcp" else UnixLinesTransport
            tr = await cls.connect(curi)
            for m in msgs:
                await tr.write(m)
                if transform(m) is not None:
                    await self._read(tr, 2.0, rec, got)
            holder["handler_done_before_close"] = [h.done() for h in net.handler_tasks]
            await tr.close()
            await asyncio.sleep(0.05)
            return None

        import gallia.services.uds.server as server_mod
        from simkit.clock import EPOCH
        from simkit.world import Seams

        seams = Seams()
        seams.set(server_mod, "time", lambda: EPOCH + (holder["net"].loop.time() if "net" in holder else 0.0))
        try:
            out = sim_run(main, vcap=900.0, stepcap=3_000_000)
        finally:
            seams.restore()
            if "net" in holder:
                holder["net"].uninstall()
        rec: Recorder = holder["rec"]
        res["trace"] = rec.jsonable() + [["net"] + list(e) for e in holder["net"].events[:2000]]
        res["vtime"] = out.vtime
        res["steps"] = out.steps
        if out.hung:
            violation(res, "C19/liveness", f"C19/liveness:{mode}:{out.kind}", f"run never finished: {out.pending}")
            return res
        if out.kind == "exc":
            e = out.exc
            violation(res, "C19/exception", f"C19/exception:{mode}:{type(e).__name__}", f"{mode} half raised {e!r}")
            return res
        got = holder["got"]
        timeouts_midline = 0
        if mode == "client":
            vals = [g for g in got if isinstance(g, bytes)]
            eof_seen = bool(vals) and vals[-1] == b""
            data_vals = [v for v in vals if v != b""]
            while vals and vals[-1] == b"":
                vals.pop()
            if b"" in vals:
                violation(res, "C19/eof", "C19/eof:empty-read-before-end", "read() returned b'' before the end of the stream")
            if data_vals != msgs[: len(data_vals)]:
                k = next((i for i, (a, b) in enumerate(zip(data_vals, msgs)) if a != b), len(data_vals))
                kind = "prefix-of-message" if k < len(data_vals) and k < len(msgs) and msgs[k].startswith(data_vals[k]) else "wrong"
                violation(res, "C19/sequence", f"C19/sequence:client-read:{kind}",
                          f"read #{k} returned {data_vals[k][:16].hex() if k < len(data_vals) else None} but message #{k} is {msgs[k][:16].hex() if k < len(msgs) else None}")
            elif len(data_vals) != len(msgs):
                violation(res, "C19/sequence", "C19/sequence:client-read:missing", f"only {len(data_vals)} of {len(msgs)} messages were returned although reads were issued until timeout/EOF")
            if plan["eof"] and not eof_seen and len(data_vals) == len(msgs):
                errs = [g for g in got if not isinstance(g, bytes)]
                if not errs or errs[-1] != "timeout":
                    pass
                else:
                    violation(res, "C19/eof", "C19/eof:not-reported", "peer closed after the last line but read() timed out instead of returning the end-of-stream value")
            others = [g for g in got if not isinstance(g, bytes) and g != "timeout"]
            if others:
                violation(res, "C19/exception", f"C19/exception:client-read:{others[0]}", f"read() raised {others}")
            # what the client wrote
            rxs = bytes(holder["peer_rx"])
            if rxs != stream_of(plan["msgs"]):
                violation(res, "C19/sequence", "C19/sequence:client-write", "peer received a different byte stream than hex(message)+newline per write()")
            timeouts_midline = sum(1 for g in got if g == "timeout")
        else:
            seen_all = holder["seen"]
            seen = [s_ for s_ in seen_all if not s_.startswith(MARK)]
            by = plan.get("bystander") if mode == "server" else None
            if by is not None:
                want_by = [MARK + bytes([i + 1]) for i in range(by["n"])]
                if [s_ for s_ in seen_all if s_.startswith(MARK)] != want_by:
                    violation(res, "C19/sequence", "C19/sequence:server-requests:second-connection", f"the server loop saw {[s_.hex() for s_ in seen_all if s_.startswith(MARK)]} from the second connection, sent {[w.hex() for w in want_by]}")
                got_by = bytes(holder["by_rx"])
                if got_by != b"".join(transform(w).hex().encode() + b"\n" for w in want_by):  # type: ignore[union-attr]
                    violation(res, "C19/sequence", "C19/sequence:server-replies:second-connection", f"the second connection received {got_by[:80]!r}, expected one reply line per request of its own ({by['n']})")
            if seen != msgs:
                k = next((i for i, (a, b) in enumerate(zip(seen, msgs)) if a != b), min(len(seen), len(msgs)))
                violation(res, "C19/sequence", f"C19/sequence:server-requests:{'missing' if len(seen) < len(msgs) and seen == msgs[:len(seen)] else 'wrong'}",
                          f"server loop saw {len(seen)} requests, {len(msgs)} were sent; first difference at #{k}")
            expect = [transform(m) for m in msgs]
            expect_b = [e for e in expect if e is not None]
            if mode == "server":
                lines = bytes(holder["client_rx"]).split(b"\n")
                tail = lines.pop() if lines else b""
                try:
                    replies = [bytes.fromhex(l.decode()) for l in lines]
                except ValueError:
                    replies = None
                if replies is None or tail != b"" or replies != expect_b:
                    violation(res, "C19/sequence", "C19/sequence:server-replies", f"reply lines differ from one line per answered request, in order (got {len(lines)} lines, want {len(expect_b)})")
            else:
                vals = [g for g in got if isinstance(g, bytes)]
                if vals != expect_b:
                    violation(res, "C19/sequence", "C19/sequence:both-halves", f"client got {len(vals)} replies, expected {len(expect_b)}; first mismatch {next((i for i,(a,b) in enumerate(zip(vals, expect_b)) if a!=b), None)}")
                others = [g for g in got if not isinstance(g, bytes)]
                if others:
                    violation(res, "C19/exception", f"C19/exception:both:{others[0]}", f"read() raised/timeouted: {others}")
            if any(holder.get("handler_done_before_close", [])):
                violation(res, "C19/server-loop", "C19/server-loop:ended-early", "the server connection loop ended while the client was still connected")
        n_split = len(segs)
        res["faults"] = {}
        if n_split:
            bump(res["faults"], "explicit_splits", n_split)
        if plan.get("peer_reads_late") and mode == "client":
            bump(res["faults"], "peer_reads_only_after_the_client_closed")
        if plan.get("untimed") and mode == "client":
            bump(res["faults"], "untimed_reads_after_timed_ones")
        if plan.get("bystander") and mode == "server":
            bump(res["faults"], "second_connection_at_the_same_time")
        if holder.get("loop") is not None and holder["loop"].stalls:
            bump(res["faults"], "loop_stalls", holder["loop"].stalls)
        for k, v in holder["net"].counters.items():
            if k in ("segmented_writes", "coalesced_writes"):
                bump(res["faults"], k, v)
        if timeouts_midline:
            bump(res["faults"], "read_timeouts", timeouts_midline)
        # coalescing = segments containing more than one newline
        stream = stream_of(plan["msgs"])
        bounds = [0] + [s["at"] for s in segs] + [len(stream)]
        coal = sum(1 for a, b in zip(bounds, bounds[1:]) if stream[a:b].count(b"\n") > 1)
        if coal:
            bump(res["faults"], "coalesced_segments", coal)
        pat = []
        pos = 0
        for m in plan["msgs"][:12]:
            ln = len(m) + 1
            inside = sum(1 for s in segs if pos < s["at"] < pos + ln)
            pat.append(str(min(inside, 3)))
            pos += ln
        if mode == "server" and plan.get("half_close"):
            bump(res["faults"], "half_close_after_pipelined_requests")
        res["shape"] = f"{mode}|{plan['scheme']}|{'hc' if plan.get('half_close') else ''}{'th' if plan.get('srv_think') else ''}|n{min(len(msgs), 9)}|{''.join(pat)}|c{min(coal, 3)}|t{min(timeouts_midline, 3)}|{'eof' if plan['eof'] else ''}|{plan['back_segment']}"
        res["nontrivial"] = bool(n_split or coal or timeouts_midline)
        return res

    async def _read(self, tr: Any, T: float, rec: Recorder, got: list[Any]) -> str:
        rec.rec("read_begin", timeout=T)
        try:
            v = await tr.read(timeout=T)
        except TimeoutError:
            rec.rec("read_end", out="timeout")
            got.append("timeout")
            return "timeout"
        except Exception as e:  # noqa: BLE001
            rec.rec("read_end", out=type(e).__name__)
            got.append(type(e).__name__)
            return "error"
        rec.rec("read_end", out="ok", data=v)
        got.append(v)
        return "ok"


def make() -> Check:
    return C19()
