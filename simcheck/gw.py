"""Shared machinery of C06 (DoIP) and C07 (HSFZ): scripted gateway on SimNet, sequential
client ops on the real transport, reference demultiplexer (a small NFA over the delivered
frames) and the alive-check oracle.
"""

from __future__ import annotations

import asyncio
from typing import Any

from simkit.harness import bump, violation
from simkit.net import Policy, SimNet
from simkit.world import Recorder

EPS = 0.012  # knife-edge window around deadlines: runs that come closer are not judged
SLACK = 0.05


class Proto:
    """Protocol specifics (independent re-implementation of the wire format)."""

    name = ""
    ack_time = 1.0
    alive_deadline = 0.5

    def parse(self, buf: bytes) -> tuple[dict[str, Any] | None, int]:
        raise NotImplementedError

    def build(self, spec: dict[str, Any], gw: "Gateway") -> bytes:
        raise NotImplementedError

    def classify(self, spec: dict[str, Any]) -> str:
        raise NotImplementedError

    def alive_response_ok(self, frame: dict[str, Any], gw: "Gateway") -> bool:
        raise NotImplementedError


class Gateway:
    """Scripted peer.  Emits what the plan says; keeps a byte-exact send log."""

    def __init__(self, loop: Any, net: SimNet, proto: Proto, plan: dict[str, Any], rec: Recorder) -> None:
        self.loop = loop
        self.net = net
        self.proto = proto
        self.plan = plan
        self.rec = rec
        self.sent: list[dict[str, Any]] = []  # frames sent: spec, cls, start, end (stream offsets), t_sent
        self.s2c_off = 0
        self.client_frames: list[dict[str, Any]] = []  # parsed client frames with completion time
        self.requests: list[bytes] = []  # payloads of client data frames
        self.writer: asyncio.StreamWriter | None = None
        self.buf = b""
        self.n_conn = 0
        self.conn: Any = None
        self.closed_seen: float | None = None

    async def handle(self, reader: asyncio.StreamReader, writer: asyncio.StreamWriter) -> None:
        self.n_conn += 1
        self.writer = writer
        self.conn = writer.transport.conn  # type: ignore[attr-defined]
        for u in self.plan.get("unsolicited", []):
            self.loop.call_later(u["at"], self.emit, u["frames"], None)
        try:
            while True:
                chunk = await reader.read(65536)
                if not chunk:
                    break
                self.buf += chunk
                while True:
                    frame, used = self.proto.parse(self.buf)
                    if frame is None:
                        break
                    self.buf = self.buf[used:]
                    frame["t"] = self.loop.time()
                    frame["i"] = len(self.client_frames)
                    self.client_frames.append(frame)
                    self.on_client_frame(frame)
        except ConnectionError:
            pass
        self.closed_seen = self.loop.time()

    def on_client_frame(self, frame: dict[str, Any]) -> None:
        if frame["kind"] == "activation":
            act = self.plan.get("act")
            if act is not None and act.get("frames") is not None:
                self.emit(act["frames"], None)
        elif frame["kind"] == "data":
            n = len(self.requests)
            self.requests.append(frame["payload"])
            reactions = self.plan.get("reactions", [])
            if n < len(reactions):
                self.emit(reactions[n], n)

    def emit(self, frames: list[dict[str, Any]], req_index: int | None) -> None:
        """Frames with join=True are written together with the previous frame (one segment)."""
        t = 0.0
        bursts: list[tuple[float, list[dict[str, Any]]]] = []
        for spec in frames:
            if spec.get("join") and bursts:
                bursts[-1][1].append(spec)
            else:
                t += spec.get("d", 0.0)
                bursts.append((t, [spec]))
        for at, specs in bursts:
            self.loop.call_later(at, self._write_burst, specs, req_index)

    def _write_burst(self, specs: list[dict[str, Any]], req_index: int | None) -> None:
        w = self.writer
        if w is None or w.transport.is_closing():
            return
        out = b""
        for spec in specs:
            s = dict(spec)
            s["req"] = req_index
            b = self.proto.build(s, self)
            entry = {
                "i": len(self.sent),
                "spec": s,
                "cls": self.proto.classify(s),
                "start": self.s2c_off + len(out),
                "end": self.s2c_off + len(out) + len(b),
                "t_sent": self.loop.time(),
                "payload": s.get("_payload"),
                "match": s.get("_match"),
            }
            self.sent.append(entry)
            out += b
        self.s2c_off += len(out)
        w.write(out)

    def delivery_times(self) -> None:
        """Fill t_del (time the last byte of each frame reached the client's protocol)."""
        log = self.conn.s2c.log if self.conn is not None else []
        cum = 0
        marks = []
        for t, chunk in log:
            cum += len(chunk)
            marks.append((cum, t))
        for e in self.sent:
            e["t_del"] = None
            for c, t in marks:
                if c >= e["end"]:
                    e["t_del"] = t
                    break


def make_policy(plan: dict[str, Any]):  # type: ignore[no-untyped-def]
    netp = plan["net"]

    def factory(i: int, d: str) -> Policy:
        seg = netp["segment"]
        if isinstance(seg, list):
            seg = ("split", seg[1]) if d == "s2c" else "whole"
        return Policy(
            seed=netp["seed"] + 2 * i + (d == "s2c"),
            lat_min=netp["lat"][0],
            lat_max=netp["lat"][1],
            segment=seg,
            max_parts=netp.get("max_parts", 4),
            coalesce=netp.get("coalesce", 0.0),
            seg_gap_min=netp.get("gap", [0.0, 0.0])[0],
            seg_gap_max=netp.get("gap", [0.0, 0.0])[1],
        )

    return factory


async def run_ops(transport: Any, plan: dict[str, Any], rec: Recorder, drain_timeout: float = 3.0) -> None:
    """Sequential client operations, then drain reads."""
    ops = list(plan["ops"])
    for n, op in enumerate(ops):
        await do_op(transport, op, rec, n)
    n = len(ops)
    for k in range(plan.get("drain", 12)):
        out = await do_op(transport, {"op": "read", "timeout": drain_timeout, "drain": True}, rec, n + k)
        if out != "ok":
            break


async def do_op(transport: Any, op: dict[str, Any], rec: Recorder, n: int) -> str:
    kind = op["op"]
    if kind == "sleep":
        await asyncio.sleep(op["d"])
        return "ok"
    if kind == "write":
        data = bytes.fromhex(op["data"])
        rec.rec("op_begin", n=n, op="write", data=data, timeout=op.get("timeout"))
        try:
            await transport.write(data, timeout=op.get("timeout"))
        except TimeoutError:
            rec.rec("op_end", n=n, op="write", out="timeout")
            return "timeout"
        except ConnectionError as e:
            rec.rec("op_end", n=n, op="write", out="conn", error=type(e).__name__)
            return "conn"
        except Exception as e:  # noqa: BLE001
            rec.rec("op_end", n=n, op="write", out="other", error=type(e).__name__, msg=str(e)[:80])
            return "other"
        rec.rec("op_end", n=n, op="write", out="ok")
        return "ok"
    if kind == "read":
        rec.rec("op_begin", n=n, op="read", timeout=op.get("timeout"), drain=bool(op.get("drain")))
        try:
            data = await transport.read(timeout=op.get("timeout"))
        except TimeoutError:
            rec.rec("op_end", n=n, op="read", out="timeout")
            return "timeout"
        except ConnectionError as e:
            rec.rec("op_end", n=n, op="read", out="conn", error=type(e).__name__)
            return "conn"
        except Exception as e:  # noqa: BLE001
            rec.rec("op_end", n=n, op="read", out="other", error=type(e).__name__, msg=str(e)[:80])
            return "other"
        rec.rec("op_end", n=n, op="read", out="ok", data=data)
        return "ok"
    raise AssertionError(kind)


# ------------------------------------------------------------------------------------- oracle
def collect_ops(events: list[list[Any]]) -> list[dict[str, Any]]:
    ops: dict[int, dict[str, Any]] = {}
    for ev in events:
        if ev[3] == "op_begin":
            ops[ev[4]["n"]] = {"n": ev[4]["n"], "op": ev[4]["op"], "t0": ev[1], "arg": ev[4], "end": None}
        elif ev[3] == "op_end":
            ops[ev[4]["n"]]["end"] = ev[4]
            ops[ev[4]["n"]]["t1"] = ev[1]
    return [ops[k] for k in sorted(ops)]


def judge_demux(prop: str, proto: Proto, gw: Gateway, ops: list[dict[str, Any]], res: dict[str, Any], ack_time: float) -> None:
    """Reference demultiplexer: NFA over delivered frames; every op outcome must be one the
    statement allows.  Time ties closer than EPS make the run ambiguous (not judged)."""
    F = [e for e in gw.sent if e["t_del"] is not None and e["cls"] not in ("alive", "ignored", "activation")]
    D = [e["payload"] for e in gw.sent if e["cls"] == "data_t"]
    # states: (frozenset(consumed frame idx), closed)
    states: set[tuple[frozenset[int], bool]] = {(frozenset(), False)}
    R: list[bytes] = []
    tainted = False
    any_conn_error = False

    def step(state: tuple[frozenset[int], bool], op: dict[str, Any]) -> list[tuple[str, Any, float, tuple[frozenset[int], bool]]]:
        """All (outcome, value, time, next_state) the statement allows for this op from this state."""
        consumed, closed = state
        t0 = op["t0"]
        if closed:
            return [("closed", None, t0, state)]
        outs: list[tuple[str, Any, float, tuple[frozenset[int], bool]]] = []
        if op["op"] == "read":
            T = op["arg"]["timeout"]
            deadline = t0 + T if T is not None else float("inf")

            def walk(idx: int, cons: frozenset[int]) -> None:
                for j in range(idx, len(F)):
                    f = F[j]
                    if f["i"] in cons:
                        continue
                    if f["t_del"] > deadline:
                        break
                    if abs(f["t_del"] - deadline) < EPS:
                        raise Ambiguous
                    c = f["cls"]
                    if c == "err":
                        outs.append(("conn", None, max(t0, f["t_del"]), (cons | {f["i"]}, True)))
                        return
                    if c == "status":
                        outs.append(("conn", None, max(t0, f["t_del"]), (cons | {f["i"]}, True)))
                        cons = cons | {f["i"]}  # other branch: ignored
                        continue
                    if c == "data_t":
                        outs.append(("ok", f["payload"], max(t0, f["t_del"]), (cons | {f["i"]}, False)))
                        return
                    # acks, foreign frames, generic nacks: skipped, stay available
                outs.append(("timeout", None, deadline, (cons, False)))

            walk(0, consumed)
            return outs
        if op["op"] == "write":
            data = op["arg"]["data"]
            data = bytes.fromhex(data) if isinstance(data, str) else data
            deadline = t0 + ack_time

            def walkw(cons: frozenset[int]) -> None:
                for f in F:
                    if f["i"] in cons:
                        continue
                    if f["t_del"] > deadline:
                        break
                    if abs(f["t_del"] - deadline) < EPS:
                        raise Ambiguous
                    c = f["cls"]
                    if c == "err":
                        outs.append(("conn", None, max(t0, f["t_del"]), (cons | {f["i"]}, True)))
                        return
                    if c == "status":
                        outs.append(("conn", None, max(t0, f["t_del"]), (cons | {f["i"]}, True)))
                        cons = cons | {f["i"]}
                        continue
                    if c == "ack" and f["match"] == data:
                        outs.append(("ok", None, max(t0, f["t_del"]), (cons | {f["i"]}, False)))
                        return
                    if c == "nack" and f["match"] == data:
                        if f["spec"].get("code") == 0x06:
                            outs.append(("ok", None, max(t0, f["t_del"]), (cons | {f["i"]}, False)))
                        else:
                            outs.append(("conn", None, max(t0, f["t_del"]), (cons | {f["i"]}, False)))
                        return
                outs.append(("conn", None, deadline, (cons, True)))

            walkw(consumed)
            return outs
        raise AssertionError(op)

    class Ambiguous(Exception):
        pass

    try:
        for op in ops:
            end = op["end"]
            if end is None:
                continue  # op never finished: liveness is judged by the caller
            got = end["out"]
            val = end.get("data")
            if isinstance(val, str):
                val = bytes.fromhex(val)
            if got == "ok" and op["op"] == "read":
                R.append(val)
            if got == "conn":
                any_conn_error = True
            nxt: set[tuple[frozenset[int], bool]] = set()
            allowed_desc = []
            closed_only = True
            for st in states:
                for out, v, t, ns in step(st, op):
                    if out == "closed":
                        nxt.add(ns)
                        continue
                    closed_only = False
                    allowed_desc.append((out, v.hex() if isinstance(v, bytes) else v, round(t - op["t0"], 4)))
                    if out != got:
                        continue
                    if out == "ok" and op["op"] == "read" and v != val:
                        continue
                    # time: the op must not take longer than the model time + slack
                    if op["t1"] > t + SLACK + (0.0 if out != "timeout" else 0.0):
                        late = op["t1"] - t
                        violation(res, f"{prop}/late", f"{prop}/late:{op['op']}:{out}",
                                  f"op {op['n']} {op['op']} ended {late:.3f}s after the instant the statement implies ({out})")
                    nxt.add(ns)
            if closed_only and nxt:
                # connection already closed per model: any error outcome is fine, data is not
                if got == "ok" and op["op"] == "read":
                    violation(res, f"{prop}/fabricated", f"{prop}/data-after-close", f"read returned {val!r} on a connection the model says is closed")
                states = nxt
                continue
            if not nxt:
                want = sorted(set(allowed_desc), key=str)
                ctx = _context(op, F, gw)
                gotd = f"{got}" + (f" {val.hex()}" if isinstance(val, bytes) else "") + (f" ({end.get('error')})" if end.get("error") else "")
                violation(res, f"{prop}/demux", f"{prop}/demux:{op['op']}:got={got}:want={'|'.join(sorted({w[0] for w in want}))}:{ctx}",
                          f"op {op['n']} {op['op']}({op['arg'].get('data', '')}) -> {gotd} after {op['t1'] - op['t0']:.3f}s; the delivered frames allow only {want}")
                tainted = True
                break
            states = nxt
    except Ambiguous:
        bump(res["probes"], "ambiguous_timing_not_judged")
        tainted = True

    # prefix / order / fabrication (independent of the NFA, always evaluated)
    if R != D[: len(R)]:
        if sorted(R) == sorted(D[: len(R)]) or all(r in D for r in R):
            if all(r in D for r in R) and len(set(R)) == len(R):
                kind = "order" if set(R) <= set(D) and sorted(map(D.index, R)) != list(map(D.index, R)) else "skipped"
            else:
                kind = "duplicate"
        else:
            kind = "fabricated"
        ctx = _order_context(R, D, gw, ops)
        violation(res, f"{prop}/sequence", f"{prop}/sequence:{kind}:{ctx}",
                  f"reads returned {[r.hex()[:12] for r in R]} but the gateway sent target data {[d.hex()[:12] for d in D]} ({kind})")
    elif not tainted and not any_conn_error and all(not st[1] for st in states):
        # everything the gateway sent to us and that was delivered must have been returned by the end
        delivered = [e["payload"] for e in gw.sent if e["cls"] == "data_t" and e["t_del"] is not None]
        last_drain_timeout = bool(ops) and ops[-1]["end"] is not None and ops[-1]["end"]["out"] == "timeout"
        if last_drain_timeout and R != delivered:
            violation(res, f"{prop}/lost", f"{prop}/lost:target-data-never-returned",
                      f"{len(delivered) - len(R)} data frame(s) for us were delivered but never returned although reads were issued until one timed out")


def _context(op: dict[str, Any], F: list[dict[str, Any]], gw: Gateway) -> str:
    """Discriminating context of a demux violation: classes of the frames delivered while the op ran."""
    during = [f["cls"] for f in F if f["t_del"] is not None and op["t0"] - 1e-9 <= f["t_del"] <= op.get("t1", op["t0"]) + 1e-9]
    before = [f["cls"] for f in F if f["t_del"] is not None and f["t_del"] < op["t0"]]
    alive_during = any(e["cls"] == "alive" and e["t_del"] is not None and op["t0"] <= e["t_del"] <= op.get("t1", op["t0"]) for e in gw.sent)
    s = "during[" + ",".join(_dedup(during)) + "]"
    if alive_during:
        s += "+alive"
    if before:
        s += ":queued[" + ",".join(sorted(set(before))) + "]"
    return s


def _dedup(xs: list[str]) -> list[str]:
    out: list[str] = []
    for x in xs:
        if not out or out[-1] != x:
            out.append(x)
    return out[:6]


def _order_context(R: list[bytes], D: list[bytes], gw: Gateway, ops: list[dict[str, Any]]) -> str:
    """Was the misplaced frame delivered while a write was waiting for its ack?"""
    try:
        k = next(i for i, (r, d) in enumerate(zip(R, D)) if r != d)
    except StopIteration:
        return "short"
    missing = D[k]
    e = next(e for e in gw.sent if e["cls"] == "data_t" and e["payload"] == missing)
    for op in ops:
        if op["op"] == "write" and e["t_del"] is not None and op["t0"] <= e["t_del"] <= op.get("t1", op["t0"]):
            return "data-delivered-during-ack-wait"
    return "data-delivered-outside-write"


def judge_alive(prop: str, proto: Proto, gw: Gateway, ops: list[dict[str, Any]], res: dict[str, Any], closed_at: float | None, end_time: float) -> None:
    responses = [f for f in gw.client_frames if f["kind"] == "alive_response"]
    used: set[int] = set()
    for e in gw.sent:
        if e["cls"] != "alive" or e["t_del"] is None:
            continue
        t = e["t_del"]
        deadline = t + proto.alive_deadline
        if closed_at is not None and closed_at <= deadline + SLACK:
            continue  # connection went down before the deadline
        if end_time < deadline + SLACK:
            continue  # run ended before the deadline
        bump(res["probes"], "alive_judged")
        phase = "idle"
        for op in ops:
            if op["t0"] <= t <= op.get("t1", end_time):
                phase = "during-" + op["op"]
        bump(res["probes"], "alive_" + phase)
        ok = None
        for r in responses:
            if r["i"] in used or r["t"] < t:
                continue
            if r["t"] <= deadline + SLACK:
                ok = r
                used.add(r["i"])
            break
        if ok is None:
            violation(res, f"{prop}/alive", f"{prop}/alive:unanswered:{phase}",
                      f"alive-check request delivered at t={t:.3f} ({phase}) was not answered within {proto.alive_deadline}s")
        elif not proto.alive_response_ok(ok, gw):
            violation(res, f"{prop}/alive", f"{prop}/alive:wrong-content", f"alive-check response has wrong content: {ok}")
