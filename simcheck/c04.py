"""C04 - one client request ends with the outcome its reply/fault sequence implies.

World A: real UDSClient / ECU on the scripted transport; world B (a share of the runs):
the same script played by a raw peer behind the real tcp-lines transport on SimNet.
Oracle: a reference state machine of the *statement* driven by the transport-level
history (what write()/read()/reconnect() returned, in order), plus liveness caps.
"""

from __future__ import annotations

import asyncio
from typing import Any

from simkit import harness
from simkit.harness import Check, bump, new_result, rng_for, violation
from simkit.loop import sim_run
from simkit.net import Policy, SimNet
from simkit.world import Recorder, ScriptTransport, SimTarget, probed, quiet_logging

from gallia.services.uds.core import service
from gallia.services.uds.core.client import UDSClient, UDSRequestConfig
from gallia.services.uds.ecu import ECU
from gallia.transports.tcp import TCPLinesTransport

# constants the model names (DESIGN appendix A)
BACKOFF0 = 0.2
POLL = 0.5
PENDING_LIMIT = 120
SILENCE_MIN = 20.0

REQS: dict[str, dict[str, Any]] = {
    "rdbi": {
        "sid": 0x22,
        "pos": bytes.fromhex("62f1901122"),
        "mismatch": [bytes.fromhex("62f19100"), bytes.fromhex("5001003201f4"), bytes.fromhex("7f1031"), bytes.fromhex("7f1078")],
        "malformed": [bytes.fromhex("62f1"), bytes.fromhex("7f22")],
    },
    "dsc": {
        "sid": 0x10,
        "pos": bytes.fromhex("5003003201f4"),
        "mismatch": [bytes.fromhex("5002003201f4"), bytes.fromhex("62f19000"), bytes.fromhex("7f2231")],
        "malformed": [bytes.fromhex("50"), bytes.fromhex("7f10")],
    },
    "tp": {
        "sid": 0x3E,
        "pos": bytes.fromhex("7e00"),
        "mismatch": [bytes.fromhex("5001003201f4"), bytes.fromhex("7f2712")],
        "malformed": [bytes.fromhex("7e"), bytes.fromhex("7f3e")],
    },
    "rd": {
        # RequestDownload: the positive reply carries a length-format nibble followed by that many length bytes
        "sid": 0x34,
        "pos": bytes.fromhex("74200ffa"),
        "mismatch": [bytes.fromhex("7520 0ffa".replace(" ", "")), bytes.fromhex("7f2231")],
        "malformed": [bytes.fromhex("74104124"), bytes.fromhex("7400"), bytes.fromhex("74")],
    },
    "rawrdbi": {
        # what every scanner does: a well-formed request sent through send_raw(); the reply must still echo its identifier
        "sid": 0x22,
        "pos": bytes.fromhex("62f191aabb"),
        "mismatch": [bytes.fromhex("62f190aabb"), bytes.fromhex("62f19200"), bytes.fromhex("5001003201f4"), bytes.fromhex("7f1031")],
        "malformed": [bytes.fromhex("62f1"), bytes.fromhex("7f22")],
    },
    "raw": {
        "sid": 0xBA,
        "pos": bytes.fromhex("fa0102"),
        "mismatch": [bytes.fromhex("fb0102"), bytes.fromhex("7f1031")],
        "malformed": [bytes.fromhex("7fba")],
    },
}


# a negative response naming the request's service with a response code ISO reserves (no member of UDSErrorCodes):
# not a reply gallia can attribute - the unchanged client refuses it as a mismatch
for _r in REQS.values():
    _r["mismatch"] += [bytes([0x7F, _r["sid"], 0x7A]), bytes([0x7F, _r["sid"], 0x05])]


def make_request(kind: str) -> service.UDSRequest:
    if kind == "rdbi":
        return service.ReadDataByIdentifierRequest(0xF190)
    if kind == "dsc":
        return service.DiagnosticSessionControlRequest(3)
    if kind == "tp":
        return service.TesterPresentRequest()
    if kind == "rawrdbi":
        return service.RawRequest(bytes.fromhex("22f191"))
    if kind == "rd":
        return service.RequestDownloadRequest(memory_address=0x1000, memory_size=0x100, compression_method=0, encryption_method=0)
    return service.RawRequest(bytes.fromhex("ba0102"))


def reply_bytes(kind: str, ev: dict[str, Any]) -> bytes | None:
    r = REQS[kind]
    k = ev["k"]
    sid = r["sid"]
    if k == "pos_final":
        return r["pos"]
    if k == "neg_final":
        return bytes([0x7F, sid, ev.get("nrc", 0x31)])
    if k == "busy":
        return bytes([0x7F, sid, 0x21])
    if k == "pending":
        return bytes([0x7F, sid, 0x78])
    if k == "mismatch":
        return r["mismatch"][ev.get("v", 0) % len(r["mismatch"])]
    if k == "malformed":
        return r["malformed"][ev.get("v", 0) % len(r["malformed"])]
    return None


class WorldA:
    def __init__(self, loop: Any, plan: dict[str, Any]) -> None:
        self.loop = loop
        self.plan = plan
        self.rec = Recorder(loop)
        self.attempt = 0
        self.n_connect = 0
        self.n_open = 0
        self.initial = True

    async def on_connect(self) -> None:
        await asyncio.sleep(0.001)
        if self.initial:
            self.initial = False
            return
        rc = self.plan.get("reconnect", [])
        outcome = rc[self.n_connect] if self.n_connect < len(rc) else "ok"
        self.n_connect += 1
        if outcome == "refused":
            self.rec.rec("connect_error", error="ConnectionRefusedError")
            raise ConnectionRefusedError(111, "Connection refused")

    def on_open(self, tr: ScriptTransport) -> int:
        self.n_open += 1
        return self.n_open - 1

    def on_close(self, tr: ScriptTransport) -> None:
        pass

    def on_write(self, tr: ScriptTransport, data: bytes) -> float | None:
        atts = self.plan["attempts"]
        a = atts[self.attempt] if self.attempt < len(atts) else {"events": []}
        self.attempt += 1
        if a.get("write_error"):
            self.rec.rec("write_error", conn=tr.index, error="BrokenPipeError")
            raise BrokenPipeError(32, "Broken pipe")
        if a.get("write_stall"):
            self._stalled = (tr, a)
            return a["write_stall"]
        t = 0.0
        for ev in a["events"]:
            t += ev["d"]
            self.loop.call_later(t, self._deliver, tr, ev)
        return None

    def on_write_done(self, tr: ScriptTransport) -> None:
        tr_, a = self._stalled
        t = 0.0
        for ev in a["events"]:
            t += ev["d"]
            self.loop.call_later(t, self._deliver, tr_, ev)

    def _deliver(self, tr: ScriptTransport, ev: dict[str, Any]) -> None:
        k = ev["k"]
        if k == "conn_error":
            tr.feed(ConnectionResetError(104, "Connection reset by peer"))
        elif k == "empty":
            tr.feed(b"")
        else:
            b = reply_bytes(self.plan["req"], ev)
            if b is not None:
                tr.feed(b)


class PeerB:
    """The same script behind a real tcp-lines connection: one raw scripted peer."""

    def __init__(self, loop: Any, net: SimNet, plan: dict[str, Any]) -> None:
        self.loop = loop
        self.plan = plan
        self.attempt = 0
        self.net = net

    async def handle(self, reader: asyncio.StreamReader, writer: asyncio.StreamWriter) -> None:
        try:
            while True:
                line = await reader.readline()
                if not line:
                    break
                atts = self.plan["attempts"]
                a = atts[self.attempt] if self.attempt < len(atts) else {"events": []}
                self.attempt += 1
                t = 0.0
                for ev in a["events"]:
                    t += ev["d"]
                    self.loop.call_later(t, self._emit, writer, ev)
        except ConnectionError:
            pass

    def _emit(self, writer: asyncio.StreamWriter, ev: dict[str, Any]) -> None:
        tr = writer.transport
        if tr.is_closing():
            return
        k = ev["k"]
        if k == "conn_error":
            conn = tr.conn  # type: ignore[attr-defined]
            conn.s._closing = True
            conn.c2s.drop_pending()
            self.loop.call_soon(conn.s._connection_lost, None)
            self.loop.call_later(
                0.0005, conn.c._connection_lost, ConnectionResetError(104, "Connection reset by peer")
            )
        elif k == "empty":
            writer.close()
        else:
            b = reply_bytes(self.plan["req"], ev)
            if b is not None:
                writer.write(b.hex().encode() + b"\n")


def eff(plan: dict[str, Any]) -> tuple[int, float]:
    mr = plan["cfg_max_retry"] if plan.get("cfg_max_retry") is not None else plan["max_retry"]
    T = plan["cfg_timeout"] if plan.get("cfg_timeout") is not None else plan["T"]
    return mr, T


def time_bound(plan: dict[str, Any]) -> float:
    mr, T = eff(plan)
    per_pending = PENDING_LIMIT * (max(T, SILENCE_MIN) + POLL)
    total = 0.0
    for i in range(mr + 1):
        total += T + 2 * BACKOFF0 * 2**i + per_pending + 1.0
    return total + 5.0


# ------------------------------------------------------------------------------------- oracle
def classify(plan: dict[str, Any], data: bytes) -> str:
    r = REQS[plan["req"]]
    sid = r["sid"]
    if data == b"":
        return "empty"
    if data == r["pos"]:
        return "pos_final"
    if data == bytes([0x7F, sid, 0x21]):
        return "busy"
    if data == bytes([0x7F, sid, 0x78]):
        return "pending"
    if data in r["mismatch"]:
        return "mismatch"
    if data in r["malformed"]:
        return "malformed"
    if len(data) == 3 and data[0] == 0x7F and data[1] == sid:
        return "neg_final"
    return "unknown"


def judge(plan: dict[str, Any], events: list[list[Any]], outcome: tuple[str, Any], res: dict[str, Any]) -> None:
    """Reference state machine of the statement, driven by the transport-level history."""
    mr, T = eff(plan)
    max_silent = max(T, SILENCE_MIN) / POLL
    i = 0  # attempt index
    tx = 0
    phase = "need_write"
    n_pending = 0
    n_silent = 0
    allowed: list[tuple[str, Any]] | None = None  # allowed outcomes once the model says "done"
    also_continue = False  # allow-set: model done OR the client may go on with the next attempt
    reconnect_failed = False

    def done(*outs: tuple[str, Any], cont: bool = False) -> None:
        nonlocal phase, allowed, also_continue
        phase = "done"
        allowed = list(outs)
        also_continue = cont

    def retry_or(*outs: tuple[str, Any]) -> None:
        """A retry-worthy event ended attempt i."""
        nonlocal phase, i
        if i < mr:
            i += 1
            phase = "need_write"
        else:
            done(*outs)

    MISSING = ("raise", "MissingResponse")
    cur_conn: int | None = None
    for ev in events:
        kind, d = ev[3], ev[4]
        if kind in ("call", "return", "raise"):
            continue
        if kind == "connected" and d.get("conn") is not None and phase == "done":
            cur_conn = d["conn"]
        if phase == "done":
            if also_continue and kind in ("write", "connect", "close", "connected", "closed"):
                # the client chose to continue (allowed alternative)
                if i < mr:
                    i += 1
                    phase = "need_write"
                    allowed = None
                    also_continue = False
                else:
                    violation(res, "C04/tx-count", "C04/tx-count:retransmission-after-last-attempt",
                              f"client continued after its last attempt (event {kind})")
                    return
            elif kind in ("connect", "close", "connected", "closed", "connect_error"):
                continue
            else:
                violation(res, "C04/protocol", f"C04/protocol:{kind}-after-final-event",
                          f"transport {kind} after the sequence already implied the outcome {allowed}")
                return
        if kind == "connected" and d.get("conn") is not None:
            cur_conn = d["conn"]
        if kind in ("write", "read_begin") and cur_conn is not None and d.get("conn") is not None and d["conn"] != cur_conn:
            # reconnect() returns a NEW transport object: the one it replaced is closed, nothing written to it is "on the wire"
            violation(res, "C04/protocol", f"C04/protocol:{kind}-on-the-transport-replaced-by-reconnect",
                      f"transport {kind} on connection {d['conn']} although reconnect() had replaced it by connection {cur_conn}")
            return
        if kind in ("connect", "connected", "close", "closed"):
            continue
        if kind == "connect_error":
            reconnect_failed = True
            continue
        if kind == "write":
            if phase != "need_write":
                sig = "C04/retransmit-during-pending" if phase == "pending" else f"C04/protocol:write-in-{phase}"
                violation(res, sig.split(":")[0], sig, f"request written while model phase is {phase} (attempt {i})")
                return
            tx += 1
            if tx > mr + 1:
                violation(res, "C04/tx-count", "C04/tx-count:more-than-max_retry+1",
                          f"{tx} transmissions with max_retry={mr}")
                return
            phase = "first_read"
            continue
        if kind == "write_error":
            if phase != "first_read":
                continue
            retry_or(MISSING)
            continue
        if kind == "write_stalled":
            if d.get("timeout") is None or abs(d["timeout"] - T) > 1e-9:
                # the caller's timeout bounds the whole attempt, the write included: a write that the peer does not take must end
                violation(res, "C04/timeout", f"C04/timeout:write-{'without-timeout' if d.get('timeout') is None else 'uses-other-value'}",
                          f"attempt {i}: the request was written with timeout {d.get('timeout')} (effective request timeout {T})")
                return
            continue
        if kind == "write_timeout":
            # the peer did not take the request within the caller's timeout: the attempt timed out
            if phase != "first_read":
                continue
            retry_or(MISSING)
            continue
        if kind == "read_begin":
            if phase not in ("first_read", "pending"):
                violation(res, "C04/protocol", f"C04/protocol:read-in-{phase}", f"read() while model phase is {phase}")
                return
            if phase == "first_read" and d.get("timeout") is not None and abs(d["timeout"] - T) > 1e-9:
                # the caller's timeout (client default or per-request override) bounds the wait for the first reply
                violation(res, "C04/timeout", f"C04/timeout:first-read-uses-{'client-default' if abs(d['timeout'] - plan['T']) < 1e-9 else 'other-value'}",
                          f"attempt {i}: the transport was read with timeout {d['timeout']} but the effective request timeout is {T} (client {plan['T']}, override {plan.get('cfg_timeout')})")
                return
            if phase == "first_read" and d.get("timeout") is None:
                violation(res, "C04/timeout", "C04/timeout:first-read-without-timeout", f"attempt {i}: the transport was read without a timeout (effective request timeout {T})")
                return
            if phase == "pending" and (d.get("timeout") is None or abs(d["timeout"] - POLL) > 1e-9):
                # the silence limit max(timeout, 20 s) is counted in polls of POLL seconds: a poll of another length
                # moves the limit (a reply that arrives within the limit would be dropped, or the wait would never end)
                violation(res, "C04/timeout", "C04/timeout:pending-poll-interval", f"attempt {i}: while waiting after a responsePending the transport was read with timeout {d.get('timeout')}, the poll interval is {POLL} s")
                return
            continue
        if kind == "read_cancelled":
            continue
        if kind == "read_timeout":
            if phase == "first_read":
                retry_or(MISSING)
            elif phase == "pending":
                n_silent += 1
                if n_silent >= max_silent:
                    bump(res["probes"], "silence_limit_reached")
                    retry_or(MISSING)
            continue
        if kind == "read_error":
            if phase == "first_read":
                retry_or(MISSING)
            elif phase == "pending":
                bump(res["probes"], "conn_error_in_pending")
                if i < mr:
                    done(MISSING, cont=True)
                else:
                    done(MISSING)
            continue
        if kind == "read":
            data = bytes.fromhex(d["data"]) if isinstance(d["data"], str) else d["data"]
            c = classify(plan, data)
            if c == "empty":
                if phase == "first_read":
                    retry_or(MISSING)
                else:
                    bump(res["probes"], "empty_in_pending")
                    if i < mr:
                        done(MISSING, cont=True)
                    else:
                        done(MISSING)
                continue
            if c in ("pos_final", "neg_final"):
                # "a reply received in time is never dropped": also when it is the reply that reaches the pending limit
                if phase == "pending" and n_pending + 1 >= PENDING_LIMIT:
                    bump(res["probes"], "final_at_pending_limit")
                done(("return", data))
                continue
            if c == "mismatch":
                done(("raise", "RequestResponseMismatch"))
                continue
            if c == "malformed":
                done(("raise", "MalformedResponse"))
                continue
            if c == "busy":
                if phase == "first_read":
                    if i >= mr:
                        bump(res["probes"], "busy_on_last_attempt")
                        done(("return", data))
                    else:
                        i += 1
                        phase = "need_write"
                else:
                    bump(res["probes"], "busy_after_pending")
                    if i < mr:
                        done(("return", data), cont=True)
                    else:
                        done(("return", data))
                continue
            if c == "pending":
                if phase == "first_read":
                    phase = "pending"
                    n_pending = 1
                    n_silent = 0
                else:
                    n_pending += 1
                    n_silent = 0
                if n_pending >= PENDING_LIMIT:
                    bump(res["probes"], "pending_limit_reached")
                    done(("raise_any", None))
                continue
            raise AssertionError(f"unclassified reply {data.hex()}")

    # the history is over: the client returned or raised
    okind, oval = outcome
    if phase != "done":
        if reconnect_failed and okind == "raise" and oval[1] in ("conn", "timeout", "MissingResponse"):
            return  # documented allow-set: a failing reconnect may propagate
        what = f"{okind} {oval if okind != 'return' else oval.hex()}"
        if phase == "pending":
            sig = f"C04/outcome:ended-in-pending-phase:{oval[0] if okind == 'raise' else 'return'}"
        else:
            sig = f"C04/outcome:ended-in-{phase}:{oval[0] if okind == 'raise' else 'return'}"
        violation(res, "C04/outcome", sig,
                  f"request ended ({what}) although the event sequence implies more work: attempt {i} of max_retry {mr}, phase {phase}, tx={tx}")
        return
    assert allowed is not None
    for a in allowed:
        if a[0] == "return" and okind == "return" and oval == a[1]:
            return
        if a[0] == "raise" and okind == "raise" and oval[0] == a[1]:
            return
        if a[0] == "raise_any" and okind == "raise":
            return
    if reconnect_failed and okind == "raise" and oval[1] in ("conn", "timeout"):
        return
    exp = ", ".join(f"{a[0]} {a[1].hex() if isinstance(a[1], bytes) else a[1]}" for a in allowed)
    got = f"return {oval.hex()}" if okind == "return" else f"raise {oval[0]}"
    tag = oval[0] if okind == "raise" else "return"
    where = "pending" if n_pending else "first"
    violation(res, "C04/outcome", f"C04/outcome:{where}-phase:expected[{allowed[0][0]}:{_short(allowed[0][1])}]:got[{tag}]",
              f"outcome {got}; the event sequence implies one of: {exp} (tx={tx}, max_retry={mr})")


def _short(x: Any) -> str:
    if isinstance(x, bytes):
        return "reply"
    return str(x)


def exc_tag(e: BaseException) -> tuple[str, str]:
    base = "other"
    if isinstance(e, ConnectionError):
        base = "conn"
    elif type(e).__name__ == "MissingResponse":
        base = "MissingResponse"
    elif isinstance(e, TimeoutError):
        base = "timeout"
    return (type(e).__name__, base)


# ------------------------------------------------------------------------------------- check
KINDS = ["silence", "conn_error", "empty", "busy", "pending", "mismatch", "malformed", "neg_final", "pos_final", "write_error"]


class C04(Check):
    prop = "C04"
    level = "exploration"
    rule = (
        "seeded event scripts over {silence, conn_error@write/read, empty read, busy, pending, mismatch, malformed, "
        "negative response with a reserved response code, neg/pos final, late replies} x delay classes {0, small, T-d, T+d, 0.4s, 0.6s} x max_retry 0..3 (client / per request; 20 % of the clients re-configured by attribute assignment after construction; requests with and without a config object) "
        "x timeouts x reconnect outcomes x request kinds; strata with 118..121 pendings and silence after a pending. "
        "A run is non-trivial if at least one fault event (anything but a single in-time final reply) was consumed; "
        "distinct = distinct sequence of (event class, phase) pairs seen by the reference state machine."
    )
    assumptions = [
        "reply classes (busy/pending/mismatch/malformed/final) are fixed byte strings per request kind; whether gallia's matcher classifies other bytes likewise is C03 and not decided here",
        "named client constants: poll 0.5 s, pending limit 120 replies, silence limit max(timeout,20) s",
        "a failing reconnect may propagate its ConnectionError/TimeoutError or end in MissingResponse (statement is silent)",
    ]
    components = {
        "UDSClient.request/_request/request_unsafe, ECU._request, helpers.parse_pdu": "real",
        "BaseTransport.reconnect/request_unsafe": "real",
        "TCPLinesTransport + asyncio streams (world B)": "real on SimNet",
        "peer": "stub: scripted events",
        "event loop": "asyncio BaseEventLoop with virtual clock",
    }
    shrink_lists = ["attempts", "attempts.0.events", "attempts.1.events", "attempts.2.events", "attempts.3.events", "reconnect"]
    quick_runs = 150000
    thorough_runs = 8000000
    chunk = 500

    def setup_process(self) -> None:
        quiet_logging()

    def strata(self, tier: str) -> int:
        return 40

    def gen(self, seed: int, index: int, tier: str) -> dict[str, Any]:
        rng = rng_for(seed, "C04", index)
        plan: dict[str, Any] = {"prop": "C04", "index": index}
        plan["world"] = "B" if rng.random() < 0.1 else "A"
        plan["client"] = "ECU" if rng.random() < 0.3 else "UDSClient"
        plan["req"] = rng.choice(list(REQS))
        plan["T"] = rng.choice([0.1, 0.5, 2.0, 5.0, 25.0])
        plan["max_retry"] = rng.choice([0, 0, 1, 2, 3])
        plan["cfg_max_retry"] = rng.choice([None, None, 0, 1, 2, 3])
        plan["cfg_timeout"] = rng.choice([None, None, None, 0.2, 1.0, 30.0])
        r_ = rng.random()
        plan["ctor"] = {"T": rng.choice([0.1, 0.5, 2.0, 25.0]), "max_retry": rng.choice([0, 1, 3])} if r_ < 0.2 else None
        plan["no_cfg"] = rng.random() < 0.5
        mr, T = eff(plan)
        d_classes = [0.0, 0.001, 0.02, max(T - 0.05, 0.01), T + 0.05, 0.4, 0.6]
        if index < self.strata(tier):
            return self._stratum(plan, index, rng)
        atts = []
        for _ in range(mr + 2):
            a: dict[str, Any] = {"events": []}
            r = rng.random()
            if r < 0.06:
                a["write_error"] = True
            n = rng.choice([0, 1, 1, 1, 2, 2, 3, 4, 6])
            for _ in range(n):
                k = rng.choices(
                    ["conn_error", "empty", "busy", "pending", "mismatch", "malformed", "neg_final", "pos_final"],
                    weights=[1.2, 1, 2, 4, 1, 1, 1.5, 2.5],
                )[0]
                ev: dict[str, Any] = {"k": k, "d": rng.choice(d_classes)}
                if k in ("mismatch", "malformed"):
                    ev["v"] = rng.randrange(4)
                if k == "neg_final":
                    ev["nrc"] = rng.choice([0x10, 0x11, 0x12, 0x13, 0x22, 0x31, 0x33, 0x7E, 0x7F])
                a["events"].append(ev)
            atts.append(a)
        plan["attempts"] = atts
        plan["reconnect"] = [rng.choice(["ok", "ok", "ok", "ok", "refused"]) for _ in range(mr + 1)]
        if plan["world"] == "A":
            # a write the peer takes late (flow control / slow acknowledgement) or never: drawn from a stream of its own
            rng2 = rng_for(seed, "C04-write-stall", index)
            for a in atts:
                if not a.get("write_error") and rng2.random() < 0.04:
                    a["write_stall"] = rng2.choice([round(T * 0.4, 4), T + 0.3, 1.0e6])
        return plan

    def _stratum(self, plan: dict[str, Any], index: int, rng: Any) -> dict[str, Any]:
        """Long-run strata: pending storms around the limit, slow pendings, silence after a pending."""
        plan["world"] = "A"
        n = [117, 118, 119, 120, 121, 130][index % 6]
        gap = [0.001, 0.4, 0.7][(index // 6) % 3]
        variant = index // 18  # 0: storm then final, 1: pending then silence, 2: storm with gaps
        mr, T = eff(plan)
        if variant == 0:
            evs = [{"k": "pending", "d": gap} for _ in range(n)] + [{"k": "pos_final", "d": gap}]
        elif variant == 1:
            k = index % 6
            evs = [{"k": "pending", "d": 0.01} for _ in range(1 + k)]
            if index % 2:
                evs.append({"k": "pos_final", "d": max(T, SILENCE_MIN) + 0.6})
        else:
            evs = []
            for _ in range(n):
                evs.append({"k": "pending", "d": rng.choice([0.001, 0.4, 0.7, 3.0, 19.0])})
            evs.append({"k": "neg_final", "d": 0.3, "nrc": 0x31})
        plan["attempts"] = [{"events": evs}] + [{"events": [{"k": "pos_final", "d": 0.01}]} for _ in range(mr + 1)]
        plan["reconnect"] = []
        return plan

    def simplify(self, plan: dict[str, Any]) -> Any:
        import copy

        if plan.get("world") == "B":
            p = copy.deepcopy(plan)
            p["world"] = "A"
            yield p
        if plan.get("client") == "ECU":
            p = copy.deepcopy(plan)
            p["client"] = "UDSClient"
            yield p
        if plan.get("ctor"):
            p = copy.deepcopy(plan)
            p["ctor"] = None
            yield p
        if plan.get("cfg_max_retry") is not None and plan["cfg_max_retry"] == plan["max_retry"]:
            p = copy.deepcopy(plan)
            p["cfg_max_retry"] = None
            yield p
        for ai, a in enumerate(plan["attempts"]):
            for ei, ev in enumerate(a["events"]):
                if ev["d"] not in (0.0, 0.001):
                    p = copy.deepcopy(plan)
                    p["attempts"][ai]["events"][ei]["d"] = 0.001
                    yield p

    # -- execution ----------------------------------------------------------------------------
    def run(self, plan: dict[str, Any]) -> dict[str, Any]:
        res = new_result()
        mr, T = eff(plan)
        bound = time_bound(plan)
        holder: dict[str, Any] = {}

        async def main(loop: Any) -> Any:
            req = make_request(plan["req"])
            cfg = UDSRequestConfig(max_retry=plan.get("cfg_max_retry"), timeout=plan.get("cfg_timeout"))
            net = None
            if plan["world"] == "A":
                world = WorldA(loop, plan)
                rec = world.rec
                target = SimTarget("tcp-lines://sim:1", world)
                transport: Any = await ScriptTransport.connect(target)
                # the initial connect is not part of the request history
                rec.events.clear()
                world.n_connect = 0
            else:
                rec = Recorder(loop)
                net = SimNet(loop, seed=plan["index"])
                net.policy_factory = lambda i, d: Policy(seed=i * 2 + (d == "s2c"), lat_min=0.0002, lat_max=0.001,
                                                         segment="random" if plan["index"] % 2 else "whole")
                net.install()
                holder["net"] = net
                peer = PeerB(loop, net, plan)
                net.listen(("tcp", "sim", 1), peer.handle)
                rc = plan.get("reconnect", [])

                cls = probed(TCPLinesTransport, rec)
                transport = await cls.connect("tcp-lines://sim:1")
                rec.events.clear()
                # reconnect outcomes: listener state switched right before each connect
                orig_connect = net._connect
                state = {"n": 0}

                async def planned_connect(addr: Any, *a: Any) -> Any:
                    outcome = rc[state["n"]] if state["n"] < len(rc) else "ok"
                    state["n"] += 1
                    net.set_listener(addr, "accept" if outcome == "ok" else "refuse")
                    return await orig_connect(addr, *a)

                net._connect = planned_connect  # type: ignore[method-assign]
            holder["rec"] = rec
            # the client may have been built with other values and re-configured afterwards (scanners assign
            # `ecu.max_retry` / `ecu.timeout` after construction): what counts is the value at the time of the request
            ctor = plan.get("ctor") or {}
            ctor_T = ctor.get("T", plan["T"])
            ctor_mr = ctor.get("max_retry", plan["max_retry"])
            if plan["client"] == "ECU":
                client: Any = ECU(transport, timeout=ctor_T, max_retry=ctor_mr)
            else:
                client = UDSClient(transport, timeout=ctor_T, max_retry=ctor_mr)
            if ctor:
                client.timeout = plan["T"]
                client.max_retry = plan["max_retry"]
            rec.rec("call")
            try:
                if plan.get("no_cfg") and plan.get("cfg_max_retry") is None and plan.get("cfg_timeout") is None:
                    resp = await client.request(req)
                else:
                    resp = await client.request(req, cfg)
            except Exception as e:  # noqa: BLE001
                rec.rec("raise", error=type(e).__name__)
                return ("raise", exc_tag(e))
            rec.rec("return", data=resp.pdu)
            return ("return", resp.pdu)

        try:
            out = sim_run(main, vcap=2 * bound, stepcap=3_000_000)
        finally:
            if "net" in holder:
                holder["net"].uninstall()
        rec = holder.get("rec")
        events = rec.jsonable() if rec is not None else []
        res["trace"] = events
        res["vtime"] = out.vtime
        res["steps"] = out.steps
        if out.hung:
            violation(res, "C04/liveness", f"C04/liveness:{out.kind}",
                      f"request did not finish within {2 * bound:.0f}s of virtual time ({out.kind}); pending: {out.pending}")
        elif out.kind == "exc":
            raise out.exc  # type: ignore[misc]
        else:
            outcome = out.value
            if out.vtime > bound:
                violation(res, "C04/time-bound", "C04/time-bound", f"request took {out.vtime:.1f}s > bound {bound:.1f}s")
            judge(plan, events, outcome, res)
            # byte-identical result / exception class feed the shape
        # shape + fault accounting
        shape = []
        for ev in events:
            k, d = ev[3], ev[4]
            if k == "read":
                c = classify(plan, bytes.fromhex(d["data"]))
                shape.append(c)
                if c not in ("pos_final", "neg_final"):
                    bump(res["faults"], c)
            elif k in ("read_timeout", "read_error", "write_error", "write_timeout", "connect_error"):
                shape.append(k)
                bump(res["faults"], k)
            elif k in ("write", "raise", "return"):
                shape.append(k)
        # compress runs of identical tokens
        comp: list[str] = []
        for s in shape:
            if comp and comp[-1].split("*")[0] == s:
                base, _, n = comp[-1].partition("*")
                comp[-1] = f"{base}*{int(n or 1) + 1}"
            else:
                comp.append(s)
        res["shape"] = f"{plan['world']}|mr{mr}|" + ",".join(comp)
        res["nontrivial"] = any(s not in ("write", "pos_final", "neg_final", "return") for s in shape)
        return res


def make() -> Check:
    return C04()
