"""C05 - concurrent users of one UDS client never interleave their exchanges.

Real ECU (client mutex, _request wrapper, cyclic tester-present worker, wait_for_ecu, reconnect)
on the scripted transport whose peer is a responder model (a share of the runs through the real
tcp-lines transport on SimNet).  2-5 callers, arrival offsets, reply scripts, one cancellation.
"""

from __future__ import annotations

import asyncio
from typing import Any

from simkit.harness import Check, bump, new_result, rng_for, violation
from simkit.loop import sim_run
from simkit.net import Policy, SimNet
from simkit.world import Recorder, ScriptTransport, Seams, SimTarget, probed, quiet_logging

from gallia.services.uds.core import service
from gallia.services.uds.core.client import UDSClient, UDSRequestConfig
from gallia.services.uds.ecu import ECU
from gallia.transports.tcp import TCPLinesTransport

T = 1.0
SCRIPTS = ["imm", "imm", "imm", "slow", "pending", "pending_long", "never", "late", "err_write", "err_read", "neg", "late_neg"]


def tag_for(did: int) -> bytes:
    return bytes([0xA5, did >> 8, did & 0xFF, (did * 7) & 0xFF])


class Responder:
    """Peer model: answers every RDBI with its DID and a tag derived from it, per the planned script."""

    def __init__(self, loop: Any, plan: dict[str, Any], rec: Recorder) -> None:
        self.loop = loop
        self.plan = plan
        self.rec = rec
        self.scripts: dict[int, list[str]] = {}
        for c in plan["callers"]:
            for r in c["reqs"]:
                self.scripts.setdefault(r["did"], list(r["scripts"]))
        self.n_open = 0
        self.tp_n = 0

    # ScriptTransport world API
    async def on_connect(self) -> None:
        rr = self.plan.get("rc_refused")
        if rr and self.n_open >= 1:
            self.refused_since = getattr(self, "refused_since", self.loop.time())
            if rr["for"] is None or self.loop.time() < self.refused_since + rr["for"]:
                await asyncio.sleep(0.001)
                self.rec.rec("connect_error", error="ConnectionRefusedError")
                self.n_refused = getattr(self, "n_refused", 0) + 1
                raise ConnectionRefusedError(111, "Connection refused")
        await asyncio.sleep(0.002)

    def on_open(self, tr: Any) -> int:
        self.n_open += 1
        return self.n_open - 1

    def on_close(self, tr: Any) -> None:
        pass

    def on_write(self, tr: Any, data: bytes) -> None:
        self.react(data, lambda item, tr=tr: tr.feed(item), raise_write=True)

    def react(self, data: bytes, feed: Any, raise_write: bool) -> None:
        loop = self.loop
        if data[:1] == b"\x3e":
            script = self.plan["tp_scripts"][self.tp_n % len(self.plan["tp_scripts"])] if self.plan["tp_scripts"] else "imm"
            self.tp_n += 1
            ok = b"\x7e\x00"
            pend = b"\x7f\x3e\x78"
        elif data[:1] in (b"\x22", b"\x2e", b"\xba") and len(data) >= 3:
            # ReadDataByIdentifier, or (callers of another service) WriteDataByIdentifier: the positive reply echoes the
            # identifier; a negative one names the service and nothing else
            did = (data[1] << 8) | data[2]
            lst = self.scripts.get(did) or ["imm"]
            script = lst.pop(0) if len(lst) > 1 else lst[0]
            odd_ = next((r_["odd"] for c_ in self.plan["callers"] for r_ in c_["reqs"] if r_.get("odd")), None)
            ok = bytes([0x62, 0xF1, 0x86]) + bytes.fromhex(odd_) if (did == 0xF186 and data[0] == 0x22 and odd_) else bytes([0x62, data[1], data[2]]) + tag_for(did) if data[0] == 0x22 else bytes([0x6E, data[1], data[2]]) if data[0] == 0x2E else bytes([0xFA, data[1], data[2]]) + tag_for(did)
            pend = bytes([0x7F, data[0], 0x78])
            neg = bytes([0x7F, data[0], 0x31])
        else:
            script = "imm"
            ok = bytes([data[0] + 0x40]) + data[1:2]
            pend = bytes([0x7F, data[0], 0x78])
        self.rec.rec("peer_script", script=script, req=data)
        if script == "imm":
            loop.call_later(0.003, feed, ok)
        elif script == "slow":
            loop.call_later(0.6, feed, ok)
        elif script in ("pending", "pending_long"):
            t = 0.0
            for _ in range(2 if script == "pending" else 7):
                t += 0.3
                loop.call_later(t, feed, pend)
            loop.call_later(t + 0.2, feed, ok)
        elif script == "never":
            pass
        elif script == "late":
            loop.call_later(T + 0.25, feed, ok)
        elif script == "neg":
            loop.call_later(0.003, feed, neg)
        elif script == "late_neg":
            loop.call_later(T + 0.25, feed, neg)
        elif script == "pending_forever":
            # an ECU that never gets beyond responsePending: the client gives up after its limit and lets the others in
            # (stops after 200 s with the answer; the client's own limit - 120 pending replies - is reached after 36 s)
            for k_ in range(1, 667):
                loop.call_later(0.3 * k_, feed, pend)
            loop.call_later(0.3 * 667, feed, ok)
            self.forever_started = getattr(self, "forever_started", []) + [loop.time()]
        elif script == "err_write":
            if raise_write:
                raise ConnectionResetError(104, "Connection reset by peer")
            feed(ConnectionResetError(104, "Connection reset by peer"))
        elif script == "err_read":
            loop.call_later(0.01, feed, ConnectionResetError(104, "Connection reset by peer"))


class C05(Check):
    prop = "C05"
    level = "exploration"
    rule = (
        "2-5 concurrent users of one ECU client: callers with 1-4 requests each (unique data identifier per request, reply echoes it with a tag), optionally the "
        "cyclic tester-present worker (interval 0.05-1 s), a reconnect() caller, a wait_for_ecu() caller; arrival offsets 0-2 s; reply script per transmission "
        "{immediate, slow, responsePending x2 / x7 then final, responsePending for ever, never, late (after the timeout), negative, late negative, connection error on write / on read}; 30 % of the requests use another service (WriteDataByIdentifier), so that a negative reply can be told apart by the service it names; max_retry 0-2; one optional "
        "cancellation of a caller at a virtual instant; 25 % of the runs on a real transport over SimNet (tcp-lines, HSFZ or DoIP with a gateway model: each adds its own mutex and reader task). non-trivial = at least two tasks wanted the "
        "client at the same time; distinct = sequence of (actor class, event class) on the wire."
    )
    assumptions = [
        "ownership of an exchange: from the first byte a task writes inside a request()/reconnect() call until that call returns (observed at the public methods UDSClient.request / reconnect and at the transport seam)",
        "a late reply consumed by another caller's exchange must make that caller fail (error), never become its result",
        "tester-present pings are indistinguishable and excluded from attribution, not from exclusion",
    ]
    components = {
        "ECU / UDSClient (mutex, _request, request_unsafe, reconnect, tester-present worker, wait_for_ecu), BaseTransport.reconnect": "real",
        "transport": "ScriptTransport (existing BaseTransport seam) or real TCPLinesTransport / HSFZTransport / DoIPTransport on SimNet",
        "peer": "stub responder model",
    }
    shrink_lists = ["callers", "callers.0.reqs", "callers.1.reqs", "callers.2.reqs", "callers.3.reqs"]
    quick_runs = 30000
    thorough_runs = 1000000
    chunk = 200

    def setup_process(self) -> None:
        quiet_logging()

    def gen(self, seed: int, index: int, tier: str) -> dict[str, Any]:
        rng = rng_for(seed, "C05", index)
        plan: dict[str, Any] = {"prop": "C05", "index": index}
        plan["stack"] = rng.choice(["tcp-lines", "hsfz", "doip"]) if rng.random() < 0.25 else None
        n = rng.choice([1, 2, 2, 3, 4] if tier == "quick" else [2, 3, 4, 5])
        callers = []
        any_forever = False
        benign = rng.random() < 0.3
        for c in range(n):
            reqs = []
            for j in range(rng.choice([1, 2, 3, 4])):
                forever = False
                mr = rng.choice([0, 0, 1, 2])
                scripts = [rng.choice(["imm", "slow"] if benign else SCRIPTS) for _ in range(mr + 1)]
                if not benign and rng.random() < 0.01 and not any_forever:
                    any_forever = True
                    # (on a service of its own, so that the stale pendings cannot be mistaken by the final probes)
                    scripts = ["pending_forever"]
                    mr = 0
                    forever = True
                reqs.append({"did": 0x1000 * (c + 1) + j, "scripts": scripts, "max_retry": mr, "think": rng.choice([0.0, 0.0, 0.01, 0.3]), "raw": rng.random() < 0.35,
                             "sid": 0x2E if rng.random() < 0.3 or forever else 0x22})
            callers.append({"start": rng.choice([0.0, 0.0, 0.001, 0.05, 0.5, 1.1, 2.0]), "reqs": reqs})
        plan["callers"] = callers
        plan["tp"] = rng.choice([None, 0.05, 0.2, 1.0])
        plan["tp_scripts"] = [rng.choice(["imm", "imm", "imm", "slow", "never", "pending", "late", "err_read"]) for _ in range(rng.choice([1, 3, 6]))] if not benign else ["imm"]
        plan["reconnect_at"] = rng.choice([None, None, 0.0, 0.3, 0.7, 1.4])
        plan["wait_at"] = rng.choice([None, None, None, 0.2, 1.0])
        plan["cancel"] = {"caller": rng.randrange(n), "at": round(rng.uniform(0.0, 3.0), 4)} if rng.random() < 0.4 else None
        plan["net_seed"] = rng.getrandbits(30)
        # the ECU is unreachable when the reconnecting caller tries (connects refused at once) - for a while or for good; the
        # caller gives reconnect() a budget, fails when it is used up and must then release the client (own stream of draws)
        # some callers send raw requests of a vendor-specific service for which gallia has no codec (what the service scanner and the
        # fuzzer do); the peer answers them with the positive response of that service, echoing identifier and tag
        rngv = rng_for(seed, "C05-vendor-sid", index)
        for c_ in plan["callers"]:
            for r_ in c_["reqs"]:
                if r_.get("sid", 0x22) == 0x22 and rngv.random() < 0.12:
                    r_["sid"] = 0xBA
                    r_["raw"] = True
        # one caller reads the active-session identifier and the ECU reports a value outside 0x00-0x7F (the session echoed with the
        # suppress bit, or a two-byte record): whatever the client makes of it, the caller must release the client afterwards
        if rngv.random() < 0.1:
            c_ = rngv.choice(plan["callers"])
            c_["reqs"].insert(rngv.randrange(len(c_["reqs"]) + 1), {"did": 0xF186, "scripts": ["imm"], "max_retry": 0, "think": 0.0, "raw": False, "sid": 0x22,
                                                                 "odd": rngv.choice(["81", "0103", "ff"])})
        rng3 = rng_for(seed, "C05-refused", index)
        plan["rc_refused"] = None
        if plan["reconnect_at"] is not None and plan.get("stack") is None and rng3.random() < 0.3:
            plan["rc_refused"] = {"for": rng3.choice([0.4, 5.0, None]), "timeout": rng3.choice([1.0, 3.0])}
        return plan

    def simplify(self, plan: dict[str, Any]) -> Any:
        import copy

        for key, val in (("stack", None), ("tp", None), ("reconnect_at", None), ("wait_at", None), ("cancel", None)):
            if plan.get(key) != val:
                p = copy.deepcopy(plan)
                p[key] = val
                yield p
        for ci, c in enumerate(plan["callers"]):
            for ri, r in enumerate(c["reqs"]):
                if any(s != "imm" for s in r["scripts"]):
                    p = copy.deepcopy(plan)
                    p["callers"][ci]["reqs"][ri]["scripts"] = ["imm"] * len(r["scripts"])
                    yield p

    def run(self, plan: dict[str, Any]) -> dict[str, Any]:
        res = new_result()
        holder: dict[str, Any] = {}
        seams = Seams()
        results: list[dict[str, Any]] = []

        async def main(loop: Any) -> Any:
            rec = Recorder(loop)
            holder["rec"] = rec
            resp = Responder(loop, plan, rec)
            holder["resp"] = resp
            # observation points at the public API: one request() / reconnect() call = one owner interval
            orig_request = UDSClient.request
            orig_reconnect = UDSClient.reconnect

            async def request(self: Any, request: Any, config: Any = None) -> Any:
                rec.rec("req_begin")
                try:
                    return await orig_request(self, request, config)
                finally:
                    rec.rec("req_end")

            async def reconnect(self: Any, timeout: Any = None) -> None:
                rec.rec("rc_begin")
                try:
                    return await orig_reconnect(self, timeout)
                finally:
                    rec.rec("rc_end")

            seams.set(UDSClient, "request", request)
            seams.set(UDSClient, "reconnect", reconnect)
            if plan["stack"]:
                net = SimNet(loop, seed=plan["net_seed"])
                net.policy_factory = lambda i, d: Policy(seed=plan["net_seed"] + 2 * i + (d == "s2c"), segment="random", lat_min=0.0001, lat_max=0.001)
                net.install()
                holder["net"] = net

                async def handle(reader: asyncio.StreamReader, writer: asyncio.StreamWriter) -> None:
                    def feed(item: Any) -> None:
                        tr = writer.transport
                        if tr.is_closing():
                            return
                        if isinstance(item, BaseException):
                            conn = tr.conn  # type: ignore[attr-defined]
                            conn.s._closing = True
                            conn.s2c.drop_pending()
                            loop.call_soon(conn.s._connection_lost, None)
                            loop.call_later(0.0003, conn.c._connection_lost, ConnectionResetError(104, "reset"))
                        else:
                            writer.write(item.hex().encode() + b"\n")

                    try:
                        while True:
                            line = await reader.readline()
                            if not line:
                                break
                            resp.react(bytes.fromhex(line.strip().decode()), feed, raise_write=False)
                    except ConnectionError:
                        pass

                if plan["stack"] in ("hsfz", "doip"):
                    from simcheck.c08 import _DoIP, _HSFZ
                    from gallia.transports.doip import DoIPTransport
                    from gallia.transports.hsfz import HSFZTransport

                    proto: Any = _DoIP(0x0E00, 0x1D, 3) if plan["stack"] == "doip" else _HSFZ(0xF4, 0x10)

                    class GwShim:
                        requests: list[bytes] = []

                    async def gw_handle(reader: asyncio.StreamReader, writer: asyncio.StreamWriter) -> None:
                        shim = GwShim()
                        shim.requests = []

                        def feed(item: Any) -> None:
                            tr = writer.transport
                            if tr.is_closing():
                                return
                            if isinstance(item, BaseException):
                                conn = tr.conn  # type: ignore[attr-defined]
                                conn.s._closing = True
                                conn.s2c.drop_pending()
                                loop.call_soon(conn.s._connection_lost, None)
                                loop.call_later(0.0003, conn.c._connection_lost, ConnectionResetError(104, "reset"))
                            else:
                                writer.write(proto.build({"f": "data_raw", "payload": item}, shim))

                        buf = b""
                        try:
                            while True:
                                chunk = await reader.read(65536)
                                if not chunk:
                                    break
                                buf += chunk
                                while True:
                                    frame, used = proto.parse(buf)
                                    if frame is None:
                                        break
                                    buf = buf[used:]
                                    if frame["kind"] == "activation":
                                        writer.write(proto.build({"f": "act", "code": 0x10}, shim))
                                    elif frame["kind"] == "data":
                                        shim.requests.append(frame["payload"])
                                        writer.write(proto.build({"f": "ack", "req": len(shim.requests) - 1}, shim))
                                        resp.react(frame["payload"], feed, raise_write=False)
                        except ConnectionError:
                            pass

                    if plan["stack"] == "doip":
                        net.listen(("tcp", "ecu", 13400), gw_handle)
                        cls = probed(DoIPTransport, rec)
                        transport: Any = await cls.connect("doip://ecu:13400?src_addr=0x0e00&target_addr=0x1d&activation_type=0x00")
                    else:
                        net.listen(("tcp", "ecu", 6801), gw_handle)
                        cls = probed(HSFZTransport, rec)
                        transport = await cls.connect("hsfz://ecu:6801?src_addr=0xf4&dst_addr=0x10&ack_timeout=1000")
                else:
                    net.listen(("tcp", "ecu", 1), handle)
                    cls = probed(TCPLinesTransport, rec)
                    transport = await cls.connect("tcp-lines://ecu:1")
            else:
                target = SimTarget("tcp-lines://ecu:1", resp)
                resp.rec = rec
                transport = await ScriptTransport.connect(target)
            rec.events.clear()
            ecu = ECU(transport, timeout=T, max_retry=0)
            holder["ecu"] = ecu
            if plan["tp"] is not None:
                await ecu.start_cyclic_tester_present(plan["tp"])
                rec.name_task(ecu.tester_present_task, "TP")

            async def caller(k: int, c: dict[str, Any]) -> None:
                await asyncio.sleep(c["start"])
                for r in c["reqs"]:
                    did = r["did"]
                    out: dict[str, Any] = {"caller": k, "did": did, "sid": r.get("sid", 0x22), "t_begin": loop.time()}
                    results.append(out)
                    try:
                        if r.get("sid", 0x22) == 0x2E:
                            # a caller of another service: a reply naming service 0x22 can never be its own
                            if r.get("raw"):
                                resp_ = await ecu.send_raw(bytes([0x2E, did >> 8, did & 0xFF, 0xAB]), UDSRequestConfig(max_retry=r["max_retry"]))
                            else:
                                resp_ = await ecu.request(service.WriteDataByIdentifierRequest(did, b"\xab"), UDSRequestConfig(max_retry=r["max_retry"]))
                        elif r.get("sid") == 0xBA:
                            resp_ = await ecu.send_raw(bytes([0xBA, did >> 8, did & 0xFF]), UDSRequestConfig(max_retry=r["max_retry"]))
                        elif r.get("raw"):
                            # scanner style: the same PDU wrapped in a RawRequest (ECU.send_raw)
                            resp_ = await ecu.send_raw(bytes([0x22, did >> 8, did & 0xFF]), UDSRequestConfig(max_retry=r["max_retry"]))
                        else:
                            resp_ = await ecu.request(service.ReadDataByIdentifierRequest(did), UDSRequestConfig(max_retry=r["max_retry"]))
                        out["out"] = "return"
                        out["pdu"] = resp_.pdu
                    except asyncio.CancelledError:
                        out["out"] = "cancelled"
                        raise
                    except Exception as e:  # noqa: BLE001
                        out["out"] = "raise"
                        out["exc"] = type(e).__name__
                    out["t_end"] = loop.time()
                    if r["think"]:
                        await asyncio.sleep(r["think"])

            tasks = []
            for k, c in enumerate(plan["callers"]):
                t = loop.create_task(caller(k, c))
                rec.name_task(t, f"c{k}")
                tasks.append(t)
            if plan["reconnect_at"] is not None:

                async def rc() -> None:
                    await asyncio.sleep(plan["reconnect_at"])
                    try:
                        if plan.get("rc_refused"):
                            await ecu.reconnect(plan["rc_refused"]["timeout"])
                        else:
                            await ecu.reconnect()
                    except Exception as e:  # noqa: BLE001
                        rec.rec("rc_failed", error=type(e).__name__)

                t = loop.create_task(rc())
                rec.name_task(t, "rc")
                tasks.append(t)
            if plan["wait_at"] is not None:

                async def waiter() -> None:
                    await asyncio.sleep(plan["wait_at"])
                    try:
                        ok = await ecu.wait_for_ecu(timeout=5.0)
                        rec.rec("wait_done", ok=ok)
                    except Exception as e:  # noqa: BLE001
                        rec.rec("wait_failed", error=type(e).__name__)
                    if ecu.tester_present_task is not None:
                        rec.name_task(ecu.tester_present_task, "TP")

                t = loop.create_task(waiter())
                rec.name_task(t, "w")
                tasks.append(t)
            if plan["cancel"] is not None:
                victim = tasks[plan["cancel"]["caller"]]

                def do_cancel() -> None:
                    if not victim.done():
                        rec.rec("cancel", caller=plan["cancel"]["caller"])
                        holder["cancelled"] = True
                        victim.cancel()

                loop.call_later(plan["cancel"]["at"], do_cancel)
            await asyncio.gather(*tasks, return_exceptions=True)
            rec.rec("all_done")
            if ecu.tester_present_task is not None:
                await ecu.stop_cyclic_tester_present()
            holder["locked_after"] = ecu.mutex.locked()
            # the client must still be usable by a new caller (stale late replies may spoil the first attempts)
            for attempt in range(4):
                try:
                    r2 = await asyncio.wait_for(ecu.request(service.ReadDataByIdentifierRequest(0x0F00 + attempt), UDSRequestConfig(max_retry=1)), 30.0)
                    holder["after"] = r2.pdu
                    break
                except Exception as e:  # noqa: BLE001
                    holder["after"] = type(e).__name__
                    await asyncio.sleep(2.0)
            return None

        try:
            out = sim_run(main, vcap=900.0, stepcap=3_000_000)
        finally:
            seams.restore()
            if "net" in holder:
                holder["net"].uninstall()
        rec: Recorder = holder["rec"]
        ev = rec.jsonable()
        res["trace"] = ev
        res["vtime"] = out.vtime
        res["steps"] = out.steps
        if out.hung:
            violation(res, "C05/progress", f"C05/progress:{out.kind}:{'after-cancel' if holder.get('cancelled') else 'no-cancel'}",
                      f"callers did not finish ({out.kind}); pending: {out.pending}")
        elif out.kind == "exc":
            raise out.exc  # type: ignore[misc]
        # ---- exclusion over the tagged wire history
        owner: str | None = None
        in_call: dict[str, str] = {}
        overlap = 0
        waiting: set[str] = set()
        for e in ev:
            seq, t, actor, kind, d = e
            if kind in ("req_begin", "rc_begin"):
                in_call[actor] = kind
                waiting.add(actor)
                if owner is not None and owner != actor:
                    overlap += 1
                continue
            if kind in ("req_end", "rc_end"):
                in_call.pop(actor, None)
                waiting.discard(actor)
                if owner == actor:
                    owner = None
                continue
            if kind in ("write", "read_begin", "close", "connect"):
                if actor not in in_call:
                    # a transport operation outside request()/reconnect(): harmless while nobody owns the client
                    # (initial connect, final close), a violation inside somebody's exchange (path that bypasses the lock)
                    if owner is not None and owner != actor:
                        a_cls = "TP" if actor == "TP" else "caller"
                        violation(res, "C05/exclusion", f"C05/exclusion:{kind}-by-{a_cls}-outside-request-during-exchange",
                                  f"t={t:.4f}: task {actor} issued transport {kind} (not through request()) while the exchange of task {owner} was in progress")
                        break
                    continue
                if owner is None:
                    owner = actor
                elif owner != actor:
                    what = "reconnect" if in_call.get(actor) == "rc_begin" or in_call.get(owner) == "rc_begin" else "request"
                    a_cls = "TP" if actor == "TP" else "caller"
                    o_cls = "TP" if owner == "TP" else ("rc" if owner == "rc" else "caller")
                    violation(res, "C05/exclusion", f"C05/exclusion:{kind}-by-{a_cls}-during-exchange-of-{o_cls}:{what}",
                              f"t={t:.4f}: task {actor} issued transport {kind} while the exchange of task {owner} was still in progress")
                    break
        # ---- no request goes on the wire while ANOTHER task still sits in a read on that client's transport (an exchange that
        # outlives its caller - e.g. one that was shielded from the caller's cancellation - would take the next caller's reply)
        open_reads: dict[str, int] = {}
        for e in ev:
            seq, t, actor, kind, d = e
            if kind == "read_begin":
                open_reads[actor] = open_reads.get(actor, 0) + 1
            elif kind in ("read", "read_timeout", "read_error", "read_cancelled"):
                open_reads[actor] = max(open_reads.get(actor, 0) - 1, 0)
            elif kind == "write":
                others = sorted(a for a, n in open_reads.items() if n > 0 and a != actor)
                if others:
                    violation(res, "C05/exclusion", "C05/exclusion:write-while-another-task-still-reads",
                              f"t={t:.4f}: task {actor} transmitted a request while task {others[0]} was still blocked in a read on the client's transport")
                    break
        # ---- an ECU stuck in responsePending: the caller gives up at the client's limit (120 pending replies, 0.3 s apart
        # here) and releases the client; it does not keep the others waiting for as long as the ECU goes on
        if getattr(holder.get("resp"), "forever_started", None):
            for r in results:
                if r.get("t_end") is None or r.get("sid") != 0x2E:
                    continue
                n_pend = sum(1 for e in ev if e[3] == "read" and e[2] == f"c{r['caller']}" and r["t_begin"] - 1e-9 <= e[1] <= r["t_end"] + 1e-9
                             and str(e[4].get("data")) in ("7f2e78", "b'\\x7f.x'"))
                if n_pend > 125:
                    violation(res, "C05/progress", "C05/progress:stuck-in-pending-beyond-the-limit",
                              f"caller {r['caller']} read {n_pend} responsePending replies in one request ({r['t_end'] - r['t_begin']:.1f} s) and kept the client all that time (the client's limit is 120)")
        # ---- attribution
        for r in results:
            if r.get("out") == "return":
                sid_ = r.get("sid", 0x22)
                want = (bytes([0x62, r["did"] >> 8, r["did"] & 0xFF]) + tag_for(r["did"]) if sid_ == 0x22 else bytes([0x6E, r["did"] >> 8, r["did"] & 0xFF]) if sid_ == 0x2E
                        else bytes([0xFA, r["did"] >> 8, r["did"] & 0xFF]) + tag_for(r["did"]))
                # a negative response naming the caller's own service is a genuine reply to any request of that service
                # (no sequence numbers in UDS): not evidence of mis-attribution.  One naming ANOTHER service is.
                own_negative = len(r["pdu"]) == 3 and r["pdu"][0] == 0x7F and r["pdu"][1] == sid_
                if own_negative and r["pdu"][2] == 0x78:
                    # responsePending announces a reply, it is not one: handing it to the caller is neither "the reply to its own
                    # request" nor "an error"
                    violation(res, "C05/attribution", "C05/attribution:response-pending-returned-as-the-reply",
                              f"caller {r['caller']} asked for {r['did']:#06x} and was handed the interim {r['pdu'].hex()} as its result")
                    break
                if r["did"] == 0xF186:
                    bump(res["probes"], "session_read_answered_with_a_value_outside_the_session_range")
                    continue
                if sid_ == 0xBA and r["pdu"][:1] == b"\xfa":
                    # a service gallia has no codec for: the positive response of that service is all the client can match on (C03),
                    # a late reply to an earlier request of the same service cannot be told from its own
                    continue
                if r["pdu"] != want and not own_negative:
                    violation(res, "C05/attribution", "C05/attribution:foreign-reply-returned",
                              f"caller {r['caller']} asked for {r['did']:#06x} and was handed {r['pdu'].hex()} (expected {want.hex()})")
                    break
        if not out.hung:
            if holder.get("locked_after"):
                violation(res, "C05/progress", "C05/progress:mutex-still-held", "client mutex still held after every caller finished")
            after = holder.get("after")
            if after is None or after == "TimeoutError":
                # the final probes must at least *complete* (reply or error): the client was released
                violation(res, "C05/progress", f"C05/progress:client-blocked-afterwards:{after}", f"a request after all callers finished did not complete ({after})")
            elif not isinstance(after, (bytes, bytearray)):
                bump(res["probes"], "client_desynchronised_by_stale_reply")
        # shape
        toks = []
        for e in ev:
            if e[3] in ("write", "read_timeout", "read_error", "write_error", "connect", "close", "cancel"):
                a = e[2]
                cls = "TP" if a == "TP" else "rc" if a == "rc" else "w" if a == "w" else "c"
                tok = f"{cls}:{e[3]}"
                if not toks or toks[-1] != tok:
                    toks.append(tok)
        res["shape"] = (f"{plan['stack']}|" if plan["stack"] else "A|") + ",".join(toks[:60])
        if plan["stack"]:
            bump(res["faults"], "full_stack_" + plan["stack"])
        res["nontrivial"] = overlap > 0
        if overlap:
            bump(res["probes"], "callers_overlapped", overlap)
        for e in ev:
            if e[3] == "peer_script" and e[4]["script"] != "imm":
                bump(res["faults"], "reply_" + e[4]["script"])
            if e[3] == "cancel":
                bump(res["faults"], "cancel")
        if plan["reconnect_at"] is not None:
            bump(res["faults"], "concurrent_reconnect")
        if getattr(holder.get("resp"), "n_refused", 0):
            bump(res["faults"], "reconnect_attempts_refused", holder["resp"].n_refused)
        if plan["wait_at"] is not None:
            bump(res["faults"], "concurrent_wait_for_ecu")
        return res


def make() -> Check:
    return C05()
