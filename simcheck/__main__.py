"""Dispatcher: python -m simcheck <property> [--tier quick|thorough] [--runs N] [--seed S] [--jobs J]
               python -m simcheck replay <file>
"""

from __future__ import annotations

import importlib
import os
import sys

if os.environ.get("PYTHONHASHSEED") is None:
    # one fixed hash seed unless a self-test asked for another value
    os.environ["PYTHONHASHSEED"] = "0"
    os.execv(sys.executable, [sys.executable, "-m", "simcheck"] + sys.argv[1:])

import signal

# A check started as a background job of a non-interactive shell (`cmd &`, nohup) inherits SIGINT = SIG_IGN; Python then
# installs no SIGINT handler and asyncio.Runner does not install its own, so a *simulated* Ctrl-C would silently do nothing.
# The simulation must not depend on how it was launched: restore the interpreter's default handler.
signal.signal(signal.SIGINT, signal.default_int_handler)

import simkit  # noqa: E402

simkit.use_repo_tree()

from simkit import harness  # noqa: E402

MODULES = {
    "C04": "simcheck.c04",
    "C05": "simcheck.c05",
    "C06": "simcheck.c06",
    "C07": "simcheck.c07",
    "C08": "simcheck.c08",
    "C09": "simcheck.c09",
    "C10": "simcheck.c10",
    "C11": "simcheck.c11",
    "C12": "simcheck.c12",
    "C13": "simcheck.c13",
    "C14": "simcheck.c14",
    "C15": "simcheck.c15",
    "C16": "simcheck.c16",
    "C17": "simcheck.c17",
    "C19": "simcheck.c19",
}


def factory_for(prop: str):  # type: ignore[no-untyped-def]
    mod = importlib.import_module(MODULES[prop])
    return mod.make


def main(argv: list[str]) -> int:
    if not argv:
        print(__doc__)
        return 2
    if argv[0] == "replay":
        return harness.replay(factory_for, argv[1])
    prop = argv[0]
    opts: dict[str, str] = {}
    it = iter(argv[1:])
    for a in it:
        if a.startswith("--"):
            opts[a[2:]] = next(it)
    mod = importlib.import_module(MODULES[prop])
    if hasattr(mod, "main"):
        return mod.main(opts)
    return harness.run_check(mod.make, opts)


if __name__ == "__main__":
    sys.exit(main(sys.argv[1:]))
