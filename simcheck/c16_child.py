"""Child interpreter of C16: runs the given cases in *this* process environment and prints digests.

usage: python -m simcheck.c16_child   (job as JSON on stdin, result as JSON on stdout)
"""

from __future__ import annotations

import asyncio
import hashlib
import json
import os
import random
import sys
import time as _time


def main() -> int:
    job = json.loads(sys.stdin.read())
    env = job["env"]
    if env.get("tz"):
        os.environ["TZ"] = env["tz"]
        _time.tzset()
    import simkit

    simkit.use_repo_tree()
    if env.get("import_first") == "commands":
        import gallia.commands  # noqa: F401
        import gallia.cli.gallia  # noqa: F401
    import gallia.services.uds.server as server_mod
    from gallia.services.uds.server import RandomUDSServer, UDSServer, UDSServerTransport
    from gallia.transports import TargetURI
    from simkit.loop import sim_run
    from simkit.net import Policy, SimNet
    from simkit.world import quiet_logging

    quiet_logging()
    if env.get("pollute") is not None:
        random.seed(env["pollute"])
        for _ in range(env["pollute"] % 17):
            random.random()
    out = {}
    for ci, case in enumerate(job["cases"]):
        result: dict = {}

        async def run_case(loop, case=case, result=result):  # type: ignore[no-untyped-def]
            # the wall clock the server reads: epoch + virtual time, stepped BACK by env["steps_back"] seconds before every
            # k-th request (NTP correction / VM resume); forward steps are not injected: more than 10 s forward legitimately
            # looks like inactivity to the server
            wall = {"off": 0.0}
            server_mod.time = lambda: env.get("epoch", 0.0) + 1_750_000_000.0 + loop.time() + wall["off"]
            params = RandomUDSServer.RandomnessParameters(**case["params"])
            behavior = UDSServer.Behavior(**case["switches"])
            if env.get("sibling"):
                # another virtual ECU lived in this process before: same seed, other arguments, asked the same questions.
                # Nothing of it may leak into the ECU under test (class-level caches, module-level state).
                alt = dict(case["params"])
                for k_, v_ in (("p_identifier", 1.0), ("p_sub_function", 1.0), ("p_service", 1.0), ("p_correct_payload_format", 0.0)):
                    alt[k_] = 0.0 if float(alt.get(k_, 0.5)) >= 0.5 and k_ != "p_service" else v_
                try:
                    sib = RandomUDSServer(case["ecu_seed"], RandomUDSServer.RandomnessParameters(**alt), behavior)
                    await sib.setup()
                    sib_t = UDSServerTransport(sib, TargetURI("tcp://h:2"))
                    for op_ in case["ops"]:
                        if "dyn" not in op_:
                            try:
                                await sib_t.handle_request(bytes.fromhex(op_["pdu"]))
                            except Exception:  # noqa: BLE001
                                break
                except Exception:  # noqa: BLE001
                    pass
            client = None
            net = None
            if case.get("via_command"):
                from gallia.commands.script.vecu import RngVirtualECU, RngVirtualECUConfig
                from gallia.transports.tcp import TCPLinesTransport
                from gallia.transports.unix import UnixLinesTransport

                net = SimNet(loop, seed=case["net_seed"])
                net.policy_factory = lambda i, d: Policy(seed=case["net_seed"] + 2 * i + (d == "s2c"), segment="random")
                net.install()
                if case["scheme"] == "unix":
                    suri, curi, cls = "unix-lines:///sim/vecu.sock", "unix-lines:///sim/vecu.sock", UnixLinesTransport
                else:
                    suri, curi, cls = "tcp://h:20162", "tcp-lines://h:20162", TCPLinesTransport
                cfg = RngVirtualECUConfig(target=suri, seed=case["ecu_seed"], **case["params"], **case["switches"])
                captured = []

                class Capturing(RngVirtualECU):
                    def _server(self):  # type: ignore[no-untyped-def]
                        srv = super()._server()
                        captured.append(srv)
                        return srv

                cmd = Capturing(cfg)
                task = loop.create_task(cmd.entry_point())
                loop.keep.append(task)
                for _ in range(50):
                    await asyncio.sleep(0.001)
                    if net.listeners:
                        break
                client = await cls.connect(curi)
                # the model the command built
                server = captured[0]
                result["model"] = {str(s): {str(int(k)): (list(map(int, v)) if v is not None else None) for k, v in sv.items()} for s, sv in server.services.items()}
            else:
                server = RandomUDSServer(case["ecu_seed"], params, behavior)
                await server.setup()
                if env.get("restart"):
                    # the virtual ECU is stopped and started again (same object, second setup/teardown cycle - what a supervisor
                    # that restarts the serving task does): it must come back as the same ECU
                    await server.teardown()
                    await server.setup()
                st = UDSServerTransport(server, TargetURI("tcp://h:1"))
                result["model"] = {str(s): {str(int(k)): (list(map(int, v)) if v is not None else None) for k, v in sv.items()} for s, sv in server.services.items()}
            transcript = []
            last_seed = None
            n_seeds = 0
            for n, op in enumerate(case["ops"]):
                gap = (op.get("gap") or 0) * env.get("pace", 1.0)
                if gap:
                    await asyncio.sleep(min(gap, 9.0))
                if env.get("steps_back") and n % 3 == 2:
                    wall["off"] -= float(env["steps_back"])
                if env.get("pollute") is not None:
                    random.random()
                if "dyn" in op:
                    key = last_seed if last_seed is not None else b"\x00"
                    if op["wrong"]:
                        key = bytes([key[0] ^ 0xFF]) + key[1:] if key else b"\x01"
                    pdu = bytes([0x27, op["sub"] | (0x80 if op["suppress"] else 0)]) + key
                    shown = f"27{op['sub']:02x}<key>"
                else:
                    pdu = bytes.fromhex(op["pdu"])
                    shown = op["pdu"]
                try:
                    if client is not None:
                        await client.write(pdu)
                        try:
                            reply = await client.read(timeout=0.3)
                        except TimeoutError:
                            reply = None
                    else:
                        reply, _ = await st.handle_request(pdu)
                except Exception as e:  # noqa: BLE001
                    transcript.append([shown, f"EXC:{type(e).__name__}"])
                    break
                if "dyn" in op:
                    # the key is the fresh seed: the verdict on it is as fresh as the seed itself
                    transcript.append([shown, "<answer to a key derived from the fresh seed>"])
                elif reply is not None and len(reply) >= 2 and reply[0] == 0x67 and reply[1] % 2 == 1:
                    last_seed = reply[2:]
                    n_seeds += 1
                    transcript.append([shown, reply[:2].hex() + "<seed>"])
                else:
                    transcript.append([shown, reply.hex() if reply is not None else None])
            result["transcript"] = transcript
            result["n_seeds"] = n_seeds
            if client is not None:
                await client.close()
            if net is not None:
                net.uninstall()

        o = sim_run(run_case, vcap=5000.0, stepcap=2_000_000)
        result["vtime"] = o.vtime
        result["steps"] = o.steps
        if o.kind != "ok":
            result["error"] = f"{o.kind}: {o.exc!r}"
        model = result.get("model")
        result["model_digest"] = hashlib.sha256(json.dumps(model, sort_keys=True).encode()).hexdigest() if model is not None else None
        result["transcript_digest"] = hashlib.sha256(json.dumps(result.get("transcript")).encode()).hexdigest()
        out[str(ci)] = result
    sys.stdout.write(json.dumps(out))
    return 0


if __name__ == "__main__":
    sys.exit(main())
