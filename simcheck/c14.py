"""C14 - the virtual ECU survives any request and its answers are accepted by the client.

World C: real UDSClient.request() (typed requests and RawRequest) <-> tcp-lines / unix-lines on
SimNet <-> real handle_client <-> RandomUDSServer; 1-3 concurrent client connections.
"""

from __future__ import annotations

import asyncio
from typing import Any

import gallia.services.uds.server as server_mod
from simcheck.c13 import SUBFUNC, make_params
from simkit.clock import EPOCH
from simkit.harness import Check, bump, new_result, rng_for, violation
from simkit.loop import sim_run
from simkit.net import Policy, SimNet
from simkit.world import Recorder, Seams, quiet_logging, seed_unseeded_rng

from gallia.services.uds.core import service
from gallia.services.uds.core.client import UDSClient
from gallia.services.uds.server import RandomUDSServer, TCPUDSServerTransport, UnixUDSServerTransport
from gallia.transports import TargetURI
from gallia.transports.tcp import TCPLinesTransport
from gallia.transports.unix import UnixLinesTransport


def rb(rng: Any, n: int) -> list[int]:
    return [rng.getrandbits(8) for _ in range(n)]


def valid_pdu(rng: Any, services: dict[int, dict[int, Any]]) -> bytes:
    """Grammar of ISO 14229-1 request layouts (independent of gallia's codec)."""
    sids = sorted({sid for sv in services.values() for sid in sv})
    sid = rng.choice(sids + [0x22, 0x2E, 0x31, 0x27, 0x10, 0x19, 0x23, 0x34, 0x2F]) if sids else 0x22
    sup = 0x80 if rng.random() < 0.15 else 0
    subs = sorted({sub for sv in services.values() if sid in sv and sv[sid] for sub in sv[sid]})
    sub = (rng.choice(subs) if subs and rng.random() < 0.8 else rng.randrange(0x80)) | sup
    did = rng.choice([0x0000, 0xF190, 0xF186, 0xFFFF, rng.randrange(0x10000)])
    d = [did >> 8, did & 0xFF]

    def mem() -> list[int]:
        a, s = rng.choice([1, 2, 4]), rng.choice([1, 2, 4])
        return [(s << 4) | a] + rb(rng, a) + rb(rng, s)

    if sid in (0x10, 0x11, 0x3E):
        return bytes([sid, sub])
    if sid == 0x14:
        return bytes([sid] + rng.choice([[0xFF, 0xFF, 0xFF], rb(rng, 3)]))
    if sid == 0x19:
        k = rng.choice([1, 2, 2, 2, 4, 6, 0x0A, 3])
        if k in (1, 2):
            return bytes([sid, k | sup, rng.getrandbits(8)])
        if k in (4, 6):
            return bytes([sid, k | sup] + rb(rng, 3) + [rng.getrandbits(8)])
        return bytes([sid, k | sup])
    if sid == 0x22:
        n = rng.choice([1, 1, 1, 2, 3, 10])
        out = [sid]
        for _ in range(n):
            x = rng.choice([did, rng.randrange(0x10000)])
            out += [x >> 8, x & 0xFF]
        return bytes(out)
    if sid == 0x23:
        return bytes([sid] + mem())
    if sid == 0x24:
        return bytes([sid] + d)
    if sid == 0x27:
        return bytes([sid, sub] + rb(rng, rng.choice([0, 0, 2, 8])))
    if sid == 0x28:
        return bytes([sid, sub, rng.choice([1, 2, 3])])
    if sid == 0x2A:
        return bytes([sid, rng.choice([1, 2, 3, 4])] + rb(rng, rng.choice([0, 1, 3])))
    if sid == 0x2C:
        k = rng.choice([1, 2, 3])
        if k == 1:
            return bytes([sid, 1 | sup, 0xF2, 0x00] + d + [1, 1])
        if k == 2:
            return bytes([sid, 2 | sup, 0xF2, 0x00, 0x11] + rb(rng, 2))
        return bytes([sid, 3 | sup] + rng.choice([[], [0xF2, 0x00]]))
    if sid == 0x2E:
        return bytes([sid] + d + rb(rng, rng.choice([1, 2, 8, 64])))
    if sid == 0x2F:
        p = rng.choice([0, 1, 2, 3])
        return bytes([sid] + d + [p] + (rb(rng, rng.choice([1, 2])) if p == 3 or rng.random() < 0.3 else []))
    if sid == 0x31:
        return bytes([sid, rng.choice([1, 2, 3]) | sup] + d + rb(rng, rng.choice([0, 0, 1, 4])))
    if sid in (0x34, 0x35):
        return bytes([sid, rng.choice([0x00, 0x11])] + mem())
    if sid == 0x36:
        return bytes([sid, rng.getrandbits(8)] + rb(rng, rng.choice([0, 1, 16, 300])))
    if sid == 0x37:
        return bytes([sid] + rb(rng, rng.choice([0, 0, 2])))
    if sid == 0x3D:
        m = mem()
        size = int.from_bytes(bytes(m[1 + (m[0] & 0xF):]), "big")
        return bytes([sid] + m + rb(rng, min(size, 32) if rng.random() < 0.7 else 3))
    if sid == 0x85:
        return bytes([sid, sub] + rb(rng, rng.choice([0, 0, 3])))
    return bytes([sid] + rb(rng, rng.choice([0, 1, 2, 5])))


def gen_requests(rng: Any, services: dict[int, dict[int, Any]], n: int, big: bool) -> list[str]:
    sessions = sorted(services)
    out = []
    for _ in range(n):
        r = rng.random()
        if r < 0.15:
            ln = rng.choice([1, 1, 2, 3, 4, 6, 9] + ([4095, 1024] if big else []))
            out.append(bytes(rb(rng, ln)).hex())
        elif r < 0.30:
            out.append(bytes([rng.randrange(256)] + rb(rng, rng.randrange(0, 9))).hex())
        elif r < 0.42:
            s = rng.choice(sessions + [rng.randrange(1, 0x7F)])
            out.append(bytes([0x10, s | (0x80 if rng.random() < 0.2 else 0)]).hex())
        elif r < 0.50:
            # requestSeed followed by sendKey with the seed just received (the vECU accepts the seed as key) or a wrong one
            cands = sorted({sub for sv in services.values() if 0x27 in sv and sv[0x27] for sub in sv[0x27] if sub % 2 == 1})
            sub = rng.choice(cands) if cands and rng.random() < 0.85 else rng.choice([1, 3, 0x11])
            out.append(bytes([0x27, sub]).hex())
            if rng.random() < 0.3:
                out.append("3e00")
            if rng.random() < 0.25:
                out.append("dyn:idle:11.5")  # the tester thinks longer than the ECU's inactivity limit (10 s) before it sends the key
            out.append(f"dyn:sendkey:{sub + 1}:{'wrong' if rng.random() < 0.25 else 'right'}")
        else:
            out.append(valid_pdu(rng, services).hex())
    return out


class C14(Check):
    prop = "C14"
    level = "exploration"
    rule = (
        "ECU models (seeds x randomness parameters, often with p_service / p_sub_function / p_identifier raised so handlers really answer) x histories of 1-100 "
        "requests per client: random bytes (1-9, 1024, 4095), every sid with 0-8 payload bytes (drawn, and every 25th plan as an exhaustive sweep over all 256 service ids at one payload length), requests from an independent ISO 14229-1 layout grammar "
        "(multi-identifier, memory-address, suppress-bit variants), session changes in between x 1-3 concurrent client connections x tcp/unix x segmentation "
        "{whole, random, bytes}. non-trivial = at least one positive typed reply or a state change; distinct = multiset of (request class, reply class) pairs."
    )
    assumptions = [
        "all default behaviours enabled (the statement's setting); benign network: latency well below the client timeout, no loss",
        "requests 1..4095 bytes; only what happens while the client keeps the connection open is judged",
        "MissingResponse is legitimate iff the request carries the suppress bit of a sub-function service (positive reply suppressed)",
    ]
    components = {
        "UDSClient.request, helpers.parse_pdu, request/response codec": "real",
        "TCPLinesTransport / UnixLinesTransport, handle_client, UDSServerTransport.handle_request, RandomUDSServer": "real on SimNet",
    }
    shrink_lists = ["clients.0", "clients.1", "clients.2"]
    quick_runs = 5000
    thorough_runs = 300000
    chunk = 40

    def setup_process(self) -> None:
        quiet_logging()

    def gen(self, seed: int, index: int, tier: str) -> dict[str, Any]:
        rng = rng_for(seed, "C14", index)
        plan: dict[str, Any] = {"prop": "C14", "index": index}
        plan["ecu_seed"] = rng.choice([0, 1, 3, rng.getrandbits(32), rng.getrandbits(32)])
        params = make_params(rng)
        if rng.random() < 0.5:
            params.update({"p_service": rng.choice([0.5, 1.0]), "p_sub_function": rng.choice([0.3, 1.0]), "p_identifier": rng.choice([0.5, 1.0]), "p_correct_payload_format": rng.choice([0.5, 1.0])})
        plan["params"] = params
        srv = RandomUDSServer(plan["ecu_seed"], RandomUDSServer.RandomnessParameters(**params))
        try:
            srv.randomize()
            services = {s: {int(k): v for k, v in sv.items()} for s, sv in srv.services.items()}
        except Exception:  # noqa: BLE001
            services = {1: {0x10: [1]}}
        nclients = rng.choice([1, 1, 2, 3])
        big = rng.random() < 0.08
        plan["clients"] = [gen_requests(rng, services, rng.choice([1, 5, 20, 50, 100] if tier == "quick" else [20, 100, 300]), big) for _ in range(nclients)]
        if index % 25 == 10:
            # exhaustive sweep: every service id 0x00-0xFF with a payload of L bytes (L = 0..8 over successive sweeps)
            ln = (index // 25) % 9
            plan["clients"][0] = plan["clients"][0][: rng.choice([0, 3, 8])] + [bytes([sid] + rb(rng, ln)).hex() for sid in range(256)]
            plan["sweep"] = True
        plan["scheme"] = rng.choice(["tcp", "tcp", "unix"])
        plan["segment"] = rng.choice(["whole", "random", "random", "bytes"]) if not big else rng.choice(["whole", "random"])
        plan["lat"] = rng.choice([[0.0001, 0.0005], [0.001, 0.005]])
        plan["net_seed"] = rng.getrandbits(30)
        plan["think"] = rng.choice([0.0, 0.0, 0.001, 0.01])
        # a tester that hangs up without reading its answer (the ECU's reply then meets a closed socket: connection reset);
        # the ECU must go on serving the others and accept new connections
        plan["rude"] = {"at": rng.choice([0.0, 0.002, 0.05]), "pdu": rng.choice(["3e00", "22f190", "1001", "27"])} if rng.random() < 0.12 else None
        return plan

    def simplify(self, plan: dict[str, Any]) -> Any:
        import copy

        if len(plan["clients"]) > 1:
            for k in range(len(plan["clients"])):
                p = copy.deepcopy(plan)
                p["clients"] = [plan["clients"][k]]
                yield p
        if plan["segment"] != "whole":
            p = copy.deepcopy(plan)
            p["segment"] = "whole"
            yield p
        if plan["scheme"] != "tcp":
            p = copy.deepcopy(plan)
            p["scheme"] = "tcp"
            yield p

    def run(self, plan: dict[str, Any]) -> dict[str, Any]:
        res = new_result()
        holder: dict[str, Any] = {}
        seams = Seams()
        pairs: dict[str, int] = {}

        async def main(loop: Any) -> Any:
            rec = Recorder(loop)
            holder["rec"] = rec
            seams.set(server_mod, "time", lambda: EPOCH + loop.time())
            seed_unseeded_rng(seams, plan["net_seed"])
            net = SimNet(loop, seed=plan["net_seed"])
            net.policy_factory = lambda i, d: Policy(seed=plan["net_seed"] + 2 * i + (d == "s2c"), segment=plan["segment"], lat_min=plan["lat"][0], lat_max=plan["lat"][1])
            net.install()
            holder["net"] = net
            try:
                server = RandomUDSServer(plan["ecu_seed"], RandomUDSServer.RandomnessParameters(**plan["params"]))
                await server.setup()
            except Exception as e:  # noqa: BLE001
                holder["setup_failed"] = repr(e)
                return None
            services = server.services
            if plan["scheme"] == "tcp":
                st: Any = TCPUDSServerTransport(server, TargetURI("tcp://h:1"))
                uri, cls = "tcp-lines://h:1", TCPLinesTransport
            else:
                st = UnixUDSServerTransport(server, TargetURI("unix:///sim/v.sock"))
                uri, cls = "unix-lines:///sim/v.sock", UnixLinesTransport
            t = loop.create_task(st.run())
            loop.keep.append(t)
            await asyncio.sleep(0)
            stop = {"flag": False}
            last_seed: dict[int, bytes] = {}

            async def client_task(k: int, reqs: list[str]) -> None:
                tr = await cls.connect(uri)
                client = UDSClient(tr, timeout=1.0, max_retry=0)
                for n, hx in enumerate(reqs):
                    if stop["flag"]:
                        break
                    if hx.startswith("dyn:idle:"):
                        await asyncio.sleep(float(hx.split(":")[2]))
                        holder["idled"] = holder.get("idled", 0) + 1
                        continue
                    if hx.startswith("dyn:sendkey:"):
                        _, _, sub_s, how = hx.split(":")
                        key = last_seed.get(k) or b"\x00"
                        if how == "wrong":
                            key = bytes([key[0] ^ 0xFF]) + key[1:]
                        pdu = bytes([0x27, int(sub_s)]) + key
                        hx = pdu.hex()
                    else:
                        pdu = bytes.fromhex(hx)
                    try:
                        req = service.UDSRequest.parse_dynamic(pdu)
                    except Exception as e:  # noqa: BLE001
                        violation(res, "C14/client-codec", f"C14/request-parser-raised:{type(e).__name__}", f"parse_dynamic({hx}) raised {e!r}")
                        stop["flag"] = True
                        break
                    cname = type(req).__name__
                    rec.rec("req", c=k, n=n, pdu=pdu, cls=cname)
                    suppress = pdu[0] in SUBFUNC and len(pdu) >= 2 and bool(pdu[1] & 0x80) and not isinstance(req, service.RawRequest)
                    try:
                        resp = await client.request(req)
                        rec.rec("rep", c=k, n=n, pdu=resp.pdu)
                        if resp.pdu[0] == 0x67 and len(resp.pdu) >= 2 and resp.pdu[1] % 2 == 1:
                            last_seed[k] = resp.pdu[2:]
                        rclass = "neg" if isinstance(resp, service.NegativeResponse) else type(resp).__name__
                        pairs[f"{cname}>{rclass}"] = pairs.get(f"{cname}>{rclass}", 0) + 1
                        if not isinstance(resp, service.NegativeResponse):
                            holder["positive"] = holder.get("positive", 0) + 1
                    except Exception as e:  # noqa: BLE001
                        en = type(e).__name__
                        rec.rec("exc", c=k, n=n, error=en)
                        if en == "MissingResponse":
                            if suppress:
                                pairs[f"{cname}>suppressed"] = pairs.get(f"{cname}>suppressed", 0) + 1
                            else:
                                alive = [net.handler_tasks[tr.writer.transport.conn.index].done()]
                                violation(res, "C14/no-answer", f"C14/no-answer:{cname}:sid={pdu[0]:#04x}",
                                          f"client {k} request {hx[:40]} ({cname}) got no answer although no suppress bit is set (handler tasks done: {alive})")
                                stop["flag"] = True
                        elif en in ("RequestResponseMismatch", "MalformedResponse"):
                            r = getattr(e, "response", None)
                            violation(res, "C14/client-rejects-reply", f"C14/client-rejects-reply:{en}:{cname}:sid={pdu[0]:#04x}",
                                      f"client {k}: the ECU's reply {getattr(r, 'pdu', b'').hex()[:60]} to {hx[:60]} ({cname}) was refused by gallia's own client: {en}: {str(e)[:160]}")
                            stop["flag"] = True
                        elif isinstance(e, ConnectionError):
                            violation(res, "C14/connection-dropped", f"C14/connection-dropped:{cname}:sid={pdu[0]:#04x}", f"client {k}: connection dropped on request {hx[:60]} ({cname}): {e!r}; server errors: {holder.get('srv_err')}")
                            stop["flag"] = True
                        else:
                            violation(res, "C14/client-raised", f"C14/client-raised:{en}:{cname}", f"client {k}: request {hx[:60]} ({cname}) raised {e!r}")
                            stop["flag"] = True
                    if server.state.session not in services:
                        violation(res, "C14/session", "C14/session-not-offered", f"server is in session {server.state.session:#x} which it does not offer, after {hx[:40]}")
                        stop["flag"] = True
                    mine = net.handler_tasks[tr.writer.transport.conn.index]
                    if mine.done():
                        excs = [repr(mine.exception()) if not mine.cancelled() else "cancelled"]
                        violation(res, "C14/server-loop-ended", f"C14/server-loop-ended:{cname}:sid={pdu[0]:#04x}", f"a server connection loop ended while its client was connected (after {hx[:60]}); {excs}")
                        stop["flag"] = True
                    if plan["think"]:
                        await asyncio.sleep(plan["think"])
                await tr.close()

            async def rude_client() -> None:
                await asyncio.sleep(plan["rude"]["at"])
                tr = await cls.connect(uri)
                await tr.write(bytes.fromhex(plan["rude"]["pdu"]))
                await tr.close()
                holder["rude_done"] = True

            tasks = [loop.create_task(client_task(k, reqs)) for k, reqs in enumerate(plan["clients"])]
            if plan.get("rude"):
                tasks.append(loop.create_task(rude_client()))
            await asyncio.gather(*tasks)
            if plan.get("rude") and not stop["flag"]:
                # afterwards a new tester is served as if nothing had happened
                await asyncio.sleep(0.05)
                tr = await cls.connect(uri)
                client = UDSClient(tr, timeout=1.0, max_retry=0)
                try:
                    # (any answer will do: the ECU's state is shared with the other testers)
                    await client.request(service.TesterPresentRequest(suppress_response=False))
                except Exception as e:  # noqa: BLE001
                    violation(res, "C14/after-rude-client", f"C14/after-rude-client:{type(e).__name__}", f"after a client hung up without reading its answer, a new client's 3e00 ended with {e!r}")
                await tr.close()
            return None

        try:
            out = sim_run(main, vcap=5000.0, stepcap=6_000_000)
        finally:
            seams.restore()
            if "net" in holder:
                holder["net"].uninstall()
        rec = holder["rec"]
        res["trace"] = rec.jsonable()
        res["vtime"] = out.vtime
        res["steps"] = out.steps
        if out.hung:
            violation(res, "C14/liveness", f"C14/liveness:{out.kind}", f"run never finished: {out.pending}")
        elif out.kind == "exc":
            raise out.exc  # type: ignore[misc]
        for k, v in sorted(pairs.items()):
            bump(res["probes"], k, v)
        res["shape"] = f"{plan['scheme']}|{plan['segment']}|c{len(plan['clients'])}|" + ",".join(sorted(pairs))
        res["nontrivial"] = holder.get("positive", 0) > 0
        net = holder.get("net")
        if net is not None:
            for k in ("segmented_writes",):
                if net.counters.get(k):
                    bump(res["faults"], k, net.counters[k])
        if len(plan["clients"]) > 1:
            bump(res["faults"], "concurrent_clients", len(plan["clients"]))
        if plan.get("sweep"):
            bump(res["probes"], "exhaustive_sweep_of_256_service_ids")
        if holder.get("rude_done"):
            bump(res["faults"], "client_hung_up_without_reading_its_answer")
        if holder.get("idled"):
            bump(res["faults"], "idle_beyond_inactivity_limit_between_seed_and_key", holder["idled"])
        return res


def make() -> Check:
    return C14()
