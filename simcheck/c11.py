"""C11 - every exchange is recorded once, in order and byte-exact, in the scan database.

A real UDSScanner subclass runs a planned history through entry_point() (genuine setup / teardown /
run-meta order) with a real DBHandler on SimSqlite (real sqlite3 file, slow writer).  The peer is
gallia's RandomUDSServer behind a fault transformer (drop, truncate, foreign reply, reset, pending,
late reply).  Crash points: exception after request k, Ctrl-C at a virtual instant.
Oracle: rows read back with sqlite3 after the run vs the wire history.
"""

from __future__ import annotations

import asyncio
import json
import sqlite3
from binascii import hexlify, unhexlify
from pathlib import Path
from typing import Any

import gallia.transports.base as tbase
from simcheck.c14 import gen_requests
from simkit.cmdworld import CmdWorld
from simkit.harness import Check, bump, new_result, rng_for, violation
from simkit.net import Policy

from gallia.command.uds import UDSScanner, UDSScannerConfig
from gallia.db.handler import DBHandler
from gallia.services.uds.core import service
from gallia.services.uds.core.client import UDSRequestConfig
from gallia.services.uds.core.exception import ResponseException
from gallia.services.uds.server import RandomUDSServer, UDSServerTransport
from gallia.transports import TargetURI

OUTCOMES = ["asis", "asis", "asis", "timeout", "truncated", "padded", "foreign", "reset", "pending", "late", "empty_line", "reset_refuse", "pending_storm"]


class HistoryConfig(UDSScannerConfig):
    pass


class HistoryScanner(UDSScanner):
    CONFIG_TYPE = HistoryConfig
    SHORT_HELP = "sim"
    plan: dict[str, Any]
    world: CmdWorld
    calls: list[dict[str, Any]]

    async def main(self) -> None:
        plan, world, rec = self.plan, self.world, self.world.rec
        for k, step in enumerate(plan["history"]):
            if "toggle" in step:
                rec.rec("toggle", on=step["toggle"])
                self.implicit_logging = step["toggle"]
                continue
            if step.get("reset_state"):
                # what ECU.power_cycle() / refresh_state(reset_state=True) do: the client's view goes back to the default state
                self.ecu.state.reset()
                self.n_state_resets = getattr(self, "n_state_resets", 0) + 1
                continue
            if step.get("sleep"):
                await asyncio.sleep(step["sleep"])
            pdu = bytes.fromhex(step["pdu"])
            req = service.UDSRequest.parse_dynamic(pdu)
            tags = ["ANALYZE"] if step.get("analyze") else None
            cfg = UDSRequestConfig(max_retry=step.get("max_retry", 0), timeout=step.get("timeout", 0.3), tags=tags)
            snap = dict(self.ecu.state.__dict__)
            call: dict[str, Any] = {"k": k, "pdu": pdu, "state": snap, "analyze": bool(step.get("analyze")), "out": "inflight", "t0": world.loop.time()}
            self.calls.append(call)
            rec.rec("call_begin", k=k)
            if plan["crash"] and plan["crash"]["at"] == k:
                q = getattr(self.db_handler, "_execute_queue", None)
                self.backlog_at_crash = q.qsize() if q is not None else 0
            if plan["crash"] and plan["crash"]["kind"] == "sigint" and plan["crash"]["at"] == k:
                world.sigint_at(world.loop.time() + plan["crash"]["delay"], self.sig_fired)
            try:
                resp = await self.ecu.request(req, cfg)
                call["out"] = "return"
                call["reply"] = resp.pdu
            except ResponseException as e:
                call["out"] = "raise"
                call["exc"] = type(e).__name__
                call["reply"] = e.response.pdu
            except asyncio.CancelledError:
                call["out"] = "cancelled"
                raise
            except Exception as e:  # noqa: BLE001
                call["out"] = "raise"
                call["exc"] = type(e).__name__
                call["reply"] = None
            finally:
                call["t1"] = world.loop.time()
                rec.rec("call_end", k=k, out=call["out"])
            if plan["crash"] and plan["crash"]["kind"] == "exception" and plan["crash"]["at"] == k:
                raise RuntimeError("planned failure of the scan")


class FaultPeer:
    """tcp-lines server: genuine answers from RandomUDSServer, transformed by the planned outcome."""

    def __init__(self, world: CmdWorld, plan: dict[str, Any]) -> None:
        self.world = world
        self.plan = plan
        self.n_main = 0
        self.uds: UDSServerTransport | None = None

    async def setup(self) -> None:
        srv = RandomUDSServer(self.plan["ecu_seed"], RandomUDSServer.RandomnessParameters(p_service=1.0, p_sub_function=0.3, p_identifier=0.7, p_correct_payload_format=1.0, p_session=0.3))
        await srv.setup()
        self.uds = UDSServerTransport(srv, TargetURI("tcp://ecu:1"))

    async def handle(self, reader: asyncio.StreamReader, writer: asyncio.StreamWriter) -> None:
        loop = self.world.loop
        assert self.uds is not None
        try:
            while True:
                line = await reader.readline()
                if not line:
                    break
                pdu = unhexlify(line.strip())
                genuine, _ = await self.uds.handle_request(pdu)
                if pdu in (b"\x3e\x00",):
                    outcome = "asis"
                else:
                    outs = self.plan["outcomes"]
                    outcome = outs[self.n_main] if self.n_main < len(outs) else "asis"
                    self.n_main += 1

                def send(b: bytes, w: asyncio.StreamWriter = writer) -> None:
                    if not w.transport.is_closing():
                        w.write(hexlify(b) + b"\n")

                if outcome == "asis":
                    if genuine is not None:
                        send(genuine)
                elif outcome == "timeout":
                    pass
                elif outcome == "truncated":
                    if genuine is not None:
                        send(genuine[:1])
                elif outcome == "padded":
                    # the genuine reply followed by a few more bytes (an echoed record, padding): whatever the client makes
                    # of it, the row holds these bytes
                    if genuine is not None:
                        send(genuine + bytes([0x41, 0x42, 0x43][: 1 + self.n_main % 3]))
                elif outcome == "echo80":
                    # an ECU that echoes the sub-function byte with bit 7 (suppressPosRspMsgIndicationBit) set in its positive reply
                    if genuine is not None:
                        send(genuine[:1] + bytes([genuine[1] | 0x80]) + genuine[2:] if len(genuine) >= 2 and genuine[0] in (0x50, 0x51, 0x59, 0x67, 0x68, 0x6C, 0x71, 0x7E, 0xC5) else genuine)
                elif outcome == "foreign":
                    send(b"\x7e\x00" if pdu[0] != 0x3E else b"\x50\x01\x00\x32\x01\xf4")
                elif outcome == "pending":
                    send(bytes([0x7F, pdu[0], 0x78]))
                    if genuine is not None:
                        loop.call_later(0.05, send, genuine)
                elif outcome == "late":
                    if genuine is not None:
                        loop.call_later(self.plan["late_delay"], send, genuine)
                elif outcome == "empty_line":
                    writer.write(b"\n")
                elif outcome == "pending_storm":
                    # an ECU stuck in responsePending: the client gives up with an error of its own after its limit
                    for _ in range(125):
                        send(bytes([0x7F, pdu[0], 0x78]))
                elif outcome in ("reset", "reset_refuse"):
                    if outcome == "reset_refuse":
                        # the ECU is gone for a while: reconnect attempts are refused
                        self.world.net.set_listener(("tcp", "ecu", 1), "refuse")
                        loop.call_later(1.5, self.world.net.set_listener, ("tcp", "ecu", 1), "accept")
                    conn = writer.transport.conn  # type: ignore[attr-defined]
                    conn.s._closing = True
                    conn.s2c.drop_pending()
                    loop.call_soon(conn.s._connection_lost, None)
                    loop.call_later(0.0005, conn.c._connection_lost, ConnectionResetError(104, "Connection reset by peer"))
                    return
        except ConnectionError:
            pass


class C11(Check):
    prop = "C11"
    level = "fault_enumeration"
    rule = (
        "histories of 1-40 client requests (independent ISO layout grammar: every service the vECU answers, raw bytes, suppress-bit variants) x outcome per request "
        "{genuine positive/negative, no reply, truncated reply, reply with extra bytes appended, foreign reply, connection reset, responsePending then reply, late reply, empty line} x max_retry 0-1 x "
        "tester-present worker on/off x implicit logging toggled off/on at drawn points x ANALYZE tag x database writer latency 0.1-50 ms per statement x crash point "
        "{none, exception after request k, Ctrl-C at a virtual instant inside request k} x resets of the client's state view; strata: transient 'database is locked', logging off from the start, state race (tester-present queued behind slow session changes), backlog (> 1000 rows queued at the interrupt). non-trivial = a fault outcome, a toggle or a crash point occurred; "
        "distinct = (sequence of outcome classes, crash kind, options)."
    )
    assumptions = [
        "one scan_result row per request() call (also when it retransmits); the wire history is taken at the transport seam (LinesTransportMixin.read/write) tagged with the calling task",
        "the exchange in flight when the run is cancelled / when logging is toggled may or may not be recorded (both accepted)",
        "no storage errors injected; aiosqlite's thread proxy replaced by SimSqlite (FIFO single worker, seeded latency, real sqlite3 engine)",
    ]
    components = {
        "ECU._request, DBHandler (queue, writer task, insert_scan_result, disconnect), UDSScanner setup/teardown, BaseCommand.entry_point": "real",
        "sqlite3 engine + schema constraints": "real file",
        "peer": "real RandomUDSServer.handle_request behind a stub fault transformer on SimNet",
    }
    shrink_lists = ["history"]
    quick_runs = 1200
    thorough_runs = 100000
    chunk = 10
    smoke_runs = 5

    def setup_process(self) -> None:
        pass

    def gen(self, seed: int, index: int, tier: str) -> dict[str, Any]:
        rng = rng_for(seed, "C11", index)
        plan: dict[str, Any] = {"prop": "C11", "index": index}
        plan["ecu_seed"] = rng.choice([1, 3, rng.getrandbits(32)])
        srv = RandomUDSServer(plan["ecu_seed"], RandomUDSServer.RandomnessParameters(p_service=1.0, p_sub_function=0.3, p_identifier=0.7, p_correct_payload_format=1.0, p_session=0.3))
        srv.randomize()
        services = {s: {int(k): v for k, v in sv.items()} for s, sv in srv.services.items()}
        n = rng.choice([1, 3, 8, 20, 40] if tier == "quick" else [8, 40, 100])
        pdus = [p for p in gen_requests(rng, services, n, False) if p != "3e00"]
        faulty = rng.random() < 0.7
        hist: list[dict[str, Any]] = []
        outcomes = []
        toggles = rng.random() < 0.25
        on = True
        for p in pdus:
            if toggles and rng.random() < 0.15:
                on = not on
                hist.append({"toggle": on})
            if rng.random() < 0.04:
                hist.append({"reset_state": True})
            step: dict[str, Any] = {"pdu": p, "max_retry": rng.choice([0, 0, 0, 1]), "timeout": rng.choice([0.1, 0.3]), "analyze": rng.random() < 0.3}
            if rng.random() < 0.2:
                step["sleep"] = rng.choice([0.01, 0.2, 0.6])
            hist.append(step)
        for _ in range(len(pdus) * 2 + 2):
            outcomes.append(rng.choice(OUTCOMES) if faulty else "asis")
        plan["history"] = hist
        plan["outcomes"] = outcomes
        plan["late_delay"] = rng.choice([0.15, 0.35, 0.5])
        plan["tp"] = rng.choice([None, None, 0.05, 0.2])
        plan["db_lat"] = rng.choice([0.0001, 0.002, 0.02, 0.05])
        if plan["tp"] is not None:
            # a writer that is slower than the tester-present worker produces rows never catches up (not a crash-consistency question)
            plan["db_lat"] = min(plan["db_lat"], plan["tp"] / 10)
        r = rng.random()
        if r < 0.5 or not pdus:
            plan["crash"] = None
        else:
            calls = [i for i, s in enumerate(hist) if "pdu" in s]
            plan["crash"] = {"kind": rng.choice(["exception", "sigint"]), "at": rng.choice(calls), "delay": rng.choice([0.0, 0.0005, 0.002, 0.01, 0.05, 0.2])}
        if plan["crash"] is None and pdus and rng.random() < 0.12:
            # Ctrl-C while the handler is being closed: it lands in disconnect() while rows are still queued behind a slow database
            plan["crash"] = {"kind": "sigint_sync", "at": -1, "delay": rng.choice([0.0, 0.001, 0.01, 0.06, 0.3])}
            plan["db_lat"] = rng.choice([0.02, 0.05])
            plan["tp"] = None
        plan["artifacts"] = rng.random() < 0.3
        plan["log_off_at_start"] = rng.random() < 0.15  # like SASeedsDumper: implicit_logging = False in the constructor
        # separate configuration: transient "database is locked" errors on row inserts (another process reads the database);
        # row ORDER is not judged there (the handler re-queues the row), completeness after close still is
        plan["db_locked"] = sorted(rng.sample(range(0, 60), rng.choice([1, 2, 4]))) if rng.random() < 0.2 else []
        # ... or on the statement that completes the run meta at teardown (rows still queued must survive that)
        plan["db_locked_run_meta"] = rng.random() < 0.1
        plan["net_seed"] = rng.getrandbits(30)
        plan["segment"] = rng.choice(["whole", "random"])
        # state race: the tester-present worker's requests queue behind session changes whose reply takes its time
        # (responsePending first), so "the client's view before the request" differs between call time and transmission time
        plan["state_race"] = False
        offered = sorted(set(services.get(1, {}).get(0x10) or []) & set(services) - {1})
        if offered and rng.random() < 0.1:
            plan["state_race"] = True
            seq_ = []
            for _ in range(rng.choice([4, 8, 14])):
                if rng.random() < 0.15:
                    seq_.append("reset_state")
                seq_.append(bytes([0x10, rng.choice(offered + [1])]).hex() if rng.random() < 0.6 else rng.choice(["22f186", "22f190", "3e00"]))
            plan["history"] = [({"reset_state": True} if p_ == "reset_state" else {"pdu": p_, "max_retry": 0, "timeout": 0.3, "analyze": False}) for p_ in seq_ if p_ != "3e00"]
            plan["outcomes"] = ["pending"] * (2 * len(seq_) + 2)
            plan["tp"] = 0.05
            plan["db_lat"] = 0.0005
            plan["db_locked"] = []
            plan["db_locked_run_meta"] = False
        # replies that carry more bytes than the service's layout: writes / reads whose positive answer has a tail appended
        if not plan["state_race"] and rng.random() < 0.06:
            seq2 = []
            for _ in range(rng.choice([3, 6, 10])):
                did_ = rng.choice([0xF190, 0xF191, 0x0000, rng.randrange(0x10000)])
                seq2.append(f"2e{did_:04x}" + bytes(rng.getrandbits(8) for _ in range(rng.choice([1, 2, 4]))).hex() if rng.random() < 0.6 else f"22{did_:04x}")
            plan["history"] = [{"pdu": p_, "max_retry": 0, "timeout": 0.3, "analyze": rng.random() < 0.3} for p_ in seq2]
            plan["outcomes"] = [rng.choice(["padded", "padded", "asis"]) for _ in range(2 * len(seq2) + 2)]
            plan["crash"] = None
        # another process holds the database's write lock for a while (shorter than the handler's busy timeout, so sqlite's busy
        # handler waits it out): rows must still arrive complete AND in transmission order (own stream of draws)
        rng5 = rng_for(seed, "C11-db-busy", index)
        plan["db_busy"] = []
        if not plan["db_locked"] and not plan["db_locked_run_meta"] and not plan["state_race"] and rng5.random() < 0.2:
            plan["db_busy"] = [[round(rng5.uniform(0.0, 1.5), 3), rng5.choice([0.03, 0.4, 2.5])] for _ in range(rng5.choice([1, 2]))]
            plan["db_busy_at_end"] = rng5.choice([None, 0.3, 4.0])
        # some replies echo the sub-function with bit 7 set (own stream of draws): the row holds the bytes that were on the wire
        rng_e = rng_for(seed, "C11-echo80", index)
        if rng_e.random() < 0.15 and not plan["state_race"]:
            plan["outcomes"] = [("echo80" if o_ == "asis" and rng_e.random() < 0.4 else o_) for o_ in plan["outcomes"]]
        plan["backlog"] = 0
        if index % 400 == 200:
            # a long run against a database far slower than the ECU: more than a thousand rows are waiting in the writer queue
            # when the run is interrupted (every one of them belongs to a completed exchange)
            nb = rng.choice([1100, 1300, 1700])
            plan["backlog"] = nb
            plan["db_busy"] = []
            plan["history"] = []
            plan["outcomes"] = ["asis"] * (2 * nb + 2)
            plan["tp"] = None
            plan["db_lat"] = 0.05
            plan["crash"] = {"kind": "sigint", "at": rng.randrange(1040, nb), "delay": rng.choice([0.0005, 0.004, 0.012, 0.03, 0.07])}
            plan["db_locked"] = []
            plan["db_locked_run_meta"] = False
            plan["log_off_at_start"] = False
        return plan

    def simplify(self, plan: dict[str, Any]) -> Any:
        import copy

        for key, val in (("tp", None), ("crash", None), ("artifacts", False), ("segment", "whole"), ("db_lat", 0.0001), ("db_busy", [])):
            if plan.get(key) != val:
                p = copy.deepcopy(plan)
                p[key] = val
                yield p
        if any(o != "asis" for o in plan["outcomes"]):
            for i, o in enumerate(plan["outcomes"]):
                if o != "asis":
                    p = copy.deepcopy(plan)
                    p["outcomes"][i] = "asis"
                    yield p

    def run(self, plan: dict[str, Any]) -> dict[str, Any]:
        res = new_result()
        world = CmdWorld(seed=plan["net_seed"], log_level=20)
        try:
            self._run(plan, world, res)
        finally:
            world.uninstall()
            world.destroy()
        return res

    def _run(self, plan: dict[str, Any], world: CmdWorld, res: dict[str, Any]) -> None:
        if plan.get("backlog"):
            # (expanded here so that the replay file stays small) distinct identifiers: every row is attributable
            plan = dict(plan, history=[{"pdu": f"22{0x1000 + i:04x}", "max_retry": 0, "timeout": 0.3, "analyze": False} for i in range(plan["backlog"])])
        tmp = Path(world.tmp)
        rec = world.rec
        world.net.policy_factory = lambda i, d: Policy(seed=plan["net_seed"] + 2 * i + (d == "s2c"), segment=plan["segment"])
        world.sql.latency = lambda c, n: plan["db_lat"]
        locked = set(plan.get("db_locked") or [])
        ins = {"n": 0, "fired": 0}

        def db_fault(conn: Any, sql: str) -> Exception | None:
            if plan.get("db_locked_run_meta") and sql.startswith("UPDATE run_meta SET end_time") and not ins.get("meta_fired"):
                ins["meta_fired"] = 1
                import sqlite3 as _sq

                return _sq.OperationalError("database is locked")
            if "INSERT INTO scan_result" not in sql:
                return None
            k = ins["n"]
            ins["n"] += 1
            if k in locked:
                ins["fired"] += 1
                import sqlite3 as _sq

                return _sq.OperationalError("database is locked")
            return None

        if locked or plan.get("db_locked_run_meta"):
            world.sql.fault = db_fault
        for t0_, dur_ in plan.get("db_busy") or []:
            world.sql.lock_windows.append((t0_, t0_ + dur_))
        if plan.get("db_busy") and plan.get("db_busy_at_end"):
            world.sql.lock_triggers.append({"prefix": "UPDATE run_meta SET end_time", "dur": plan["db_busy_at_end"]})
        world.install(capture=lambda r: "Could not log messages to database" in r.getMessage() or "Database worker died" in r.getMessage())
        # wire monitor at the transport seam, tagged with the calling task
        orig_w, orig_r = tbase.LinesTransportMixin.write, tbase.LinesTransportMixin.read

        async def w(self: Any, data: bytes, timeout: Any = None, tags: Any = None) -> int:
            rec.rec("wire_write", data=bytes(data), state=dict(cmd.ecu.state.__dict__))
            return await orig_w(self, data, timeout, tags)

        async def r(self: Any, timeout: Any = None, tags: Any = None) -> bytes:
            try:
                d = await orig_r(self, timeout, tags)
            except BaseException as e:
                rec.rec("wire_read_exc", error=type(e).__name__)
                raise
            rec.rec("wire_read", data=bytes(d))
            return d

        world.seams.set(tbase.LinesTransportMixin, "write", w)
        world.seams.set(tbase.LinesTransportMixin, "read", r)
        peer = FaultPeer(world, plan)
        kw: dict[str, Any] = {"db": tmp / "db.sqlite"}
        if plan["artifacts"]:
            kw["artifacts_base"] = tmp / "art"
        cfg = HistoryConfig(target="tcp-lines://ecu:1", dumpcap=False, tester_present=plan["tp"] is not None, tester_present_interval=plan["tp"] or 0.5,
                            timeout=0.3, max_retries=0, **kw)
        cmd = HistoryScanner(cfg)
        cmd.plan, cmd.world, cmd.calls = plan, world, []
        if plan.get("log_off_at_start"):
            cmd.implicit_logging = False
            rec.events.append([len(rec.events), 0.0, "main", "toggle", {"on": False}])
        orig_finish = cmd._db_finish_run_meta

        async def finish() -> None:
            rec.rec("db_finish_begin")
            await orig_finish()

        cmd._db_finish_run_meta = finish  # type: ignore[method-assign]
        orig_disc = DBHandler.disconnect

        async def disc(self_: Any) -> None:
            q_ = getattr(self_, "_execute_queue", None)
            rec.rec("db_disconnect_begin", queued=q_.qsize() if q_ is not None else 0)
            if plan["crash"] and plan["crash"]["kind"] == "sigint_sync":
                world.sigint_at(world.loop.time() + plan["crash"]["delay"], cmd.sig_fired)
            await orig_disc(self_)

        world.seams.set(DBHandler, "disconnect", disc)
        cmd.sig_fired = []  # type: ignore[attr-defined]

        async def main() -> int:
            await peer.setup()
            world.net.listen(("tcp", "ecu", 1), peer.handle)
            rec.name_task(asyncio.current_task(), "main")
            return await cmd.entry_point()

        out = world.run_cli(main, vcap=3000.0, stepcap=20_000_000)
        world.sql.close_all()
        res["vtime"] = out["vtime"]
        res["steps"] = out["steps"]
        ev = rec.jsonable()
        res["trace"] = ev
        crash = plan["crash"]
        if out["kind"] == "hung":
            violation(res, "C11/liveness", f"C11/liveness:{crash['kind'] if crash else 'none'}", f"run never finished: {out['pending'][:4]}")
            return
        # ---- exchanges from the wire history
        exchanges: list[dict[str, Any]] = []
        open_by_actor: dict[str, dict[str, Any]] = {}
        in_call: dict[str, int | None] = {}
        toggles = [e[1] for e in ev if e[3] == "toggle"]
        toggle_seqs = [(e[0], e[4]["on"]) for e in ev if e[3] == "toggle"]
        call_end_seq: dict[int, int] = {}
        sig_t = cmd.sig_fired[0] if cmd.sig_fired else None  # type: ignore[attr-defined]
        fin_t = next((e[1] for e in ev if e[3] == "db_finish_begin"), None)
        disc_ev = next((e for e in ev if e[3] == "db_disconnect_begin"), None)
        if sig_t is not None and fin_t is not None and sig_t >= fin_t - 1e-9:
            if disc_ev is None or sig_t < disc_ev[1] - 1e-9:
                # Ctrl-C before the close of the handler has begun (while the run meta is completed): the handler is never
                # closed then, which is outside "after the handler is closed" - counted, not judged
                bump(res["probes"], "sigint_during_run_meta_update_not_judged")
                res["shape"] = "sigint-during-run-meta-update"
                return
            # Ctrl-C while disconnect() runs: every exchange was completed before, so every row is mandatory
            bump(res["probes"], "sigint_while_the_handler_is_being_closed")
            if disc_ev[4].get("queued", 0) > 0:
                bump(res["probes"], "sigint_while_rows_are_still_queued_at_close")
        for e in ev:
            seq, t, actor, kind, d = e
            if kind == "call_begin":
                in_call[actor] = d["k"]
                open_by_actor.pop(actor, None)
            elif kind == "call_end":
                in_call[actor] = None
                call_end_seq[d["k"]] = seq
                x = open_by_actor.pop(actor, None)
                if x is not None:
                    x["t1"] = t
            elif kind == "wire_write":
                k = in_call.get(actor)
                x = open_by_actor.get(actor)
                if x is not None and k is not None and x["k"] == k and x["req"] == d["data"]:
                    x["writes"] += 1  # retransmission inside one request() call
                    continue
                if x is not None:
                    x.setdefault("t1", t)
                x = {"seq": seq, "t0": t, "actor": actor, "k": k, "req": d["data"], "writes": 1, "reads": [], "errs": [], "state": d.get("state")}
                exchanges.append(x)
                open_by_actor[actor] = x
            elif kind == "wire_read":
                x = open_by_actor.get(actor)
                if x is not None:
                    x["reads"].append(d["data"])
                    x["t_last"] = t
                    x["seq_last"] = seq
            elif kind == "wire_read_exc":
                x = open_by_actor.get(actor)
                if x is not None:
                    x["errs"].append(d["error"])
                    x["t_last"] = t
                    x["seq_last"] = seq
        end_t = out["vtime"]
        calls = {c["k"]: c for c in cmd.calls}
        # ---- rows
        try:
            con = sqlite3.connect(tmp / "db.sqlite")
            rows = con.execute("SELECT id, request_pdu, response_pdu, exception, request_time, response_time, state, log_mode FROM scan_result ORDER BY id").fetchall()
            con.close()
        except Exception as e:  # noqa: BLE001
            violation(res, "C11/db", f"C11/db-unreadable:{type(e).__name__}", f"database unreadable after the run: {e!r}")
            return
        if world.records:
            violation(res, "C11/warning", "C11/warning:could-not-log", f"{len(world.records)} warning(s): {world.records[0].getMessage()[:200]}")
        # expected rows with optional ones (in flight at a crash / toggle instant)
        expected = []
        logging_on_at = self._logging_timeline(ev)
        for x in exchanges:
            # end of the exchange: the caller's return for planned calls, else the last transport event of that task
            t1 = x.get("t_last", x.get("t1", end_t))
            if x["k"] is not None and x["k"] in calls and "t1" in calls[x["k"]]:
                t1 = calls[x["k"]]["t1"]
            optional = False
            # the client task holds the final reply of this exchange (its last transport read returned a reply that is neither
            # responsePending nor busyRepeatRequest): the exchange is complete, whatever happens to the task afterwards -
            # between that read and the hand-over to the database writer the unchanged client never suspends
            reads_ = [bytes.fromhex(r_) if isinstance(r_, str) else r_ for r_ in x["reads"]]
            rq0_ = (bytes.fromhex(x["req"]) if isinstance(x["req"], str) else x["req"])[0]
            complete_on_wire = bool(reads_) and reads_[-1] != b"" and not (len(reads_[-1]) == 3 and reads_[-1][0] == 0x7F and reads_[-1][1] == rq0_ and reads_[-1][2] in (0x78, 0x21)) and not x["errs"]
            if sig_t is not None and t1 >= sig_t - 1e-9 and not (complete_on_wire and x["k"] is not None):
                optional = True  # in flight (or started) when the run was cancelled
            # order by the simulator's event sequence numbers, not by (tying) virtual time
            end_seq = call_end_seq.get(x["k"]) if x["k"] is not None and x["k"] in call_end_seq else x.get("seq_last", x["seq"])
            if x["k"] is None:
                # the monitor does not see when a foreign task's request() returns: widen by the events of the same instant
                end_seq = max([end_seq] + [e[0] for e in ev if abs(e[1] - t1) < 1e-9])
            if any(x["seq"] <= ts <= end_seq for ts, _ in toggle_seqs):
                optional = True
            on = True
            for ts, st in toggle_seqs:
                if ts < end_seq:
                    on = st
            if not on and not optional:
                continue
            c = calls.get(x["k"]) if x["k"] is not None else None
            if c is not None and c["out"] in ("return", "raise"):
                reply = c["reply"]
                reply = bytes.fromhex(reply) if isinstance(reply, str) else reply
                exc = c.get("exc") if c["out"] == "raise" else None
                if c["out"] == "return" and reads_ and reads_[-1] != b"" and reply is not None and reads_[-1] != reply and reads_[-1][:1] == reply[:1]:
                    # "the exact reply bytes": what was on the wire, not what the codec makes of it when it re-encodes the
                    # object it handed to the caller
                    reply = reads_[-1]
            else:
                data_reads = [bytes.fromhex(r) for r in x["reads"]]
                rq0 = bytes.fromhex(x["req"])[0] if isinstance(x["req"], str) else x["req"][0]
                nonpending = [r for r in data_reads if not (len(r) == 3 and r[0] == 0x7F and r[1] == rq0 and r[2] == 0x78) and r != b""]
                reply = nonpending[-1] if nonpending else None
                exc = "?"  # unknown to the monitor (tester-present worker / setup code)
                if c is not None and c["out"] in ("cancelled", "inflight") and not complete_on_wire:
                    optional = True
            expected.append({"req": bytes.fromhex(x["req"]) if isinstance(x["req"], str) else x["req"], "reply": reply, "exc": exc, "optional": optional or not on,
                             "call": c, "x": x, "must_absent": not on and not optional})
        # a call that was cancelled while it still waited for the client (never on the wire) may leave a row
        on_wire = {x["k"] for x in exchanges if x["k"] is not None}
        for c in cmd.calls:
            if c["k"] not in on_wire and c["out"] in ("cancelled", "inflight"):
                expected.append({"req": c["pdu"], "reply": None, "exc": "?", "optional": True, "call": c, "x": {"actor": "main", "t0": c["t0"]}, "must_absent": False})
        # a task cancelled while it still waits for the client (tester-present worker stopped at teardown) leaves a row
        # without reply and without exception for a request that never reached the wire: tolerated, counted
        phantom = []
        kept_rows = []
        cancelled_calls = [c_ for c_ in cmd.calls if c_["out"] in ("cancelled", "inflight") and c_["k"] not in {x["k"] for x in exchanges}]
        for row in rows:
            rq_ = bytes.fromhex(row[1])
            vt_ = row[4] - world.epoch
            later_write = any((bytes.fromhex(x["req"]) if isinstance(x["req"], str) else x["req"]) == rq_ and x["t0"] >= vt_ - 1e-4 for x in exchanges)
            is_planned_cancel = any(c_["pdu"] == rq_ for c_ in cancelled_calls)
            if row[2] is None and row[3] is None and not later_write and not is_planned_cancel:
                # send stamp taken, but this request was never written afterwards: its task was cancelled while waiting for the client
                phantom.append(row)
            else:
                kept_rows.append(row)
        if phantom:
            bump(res["probes"], "row_for_request_cancelled_before_the_wire", len(phantom))
            rows = kept_rows
        # align rows with the expected exchanges: mandatory ones in order, optional ones anywhere (possibly absent)
        mand = [x for x in expected if not x["optional"]]
        opt = [x for x in expected if x["optional"]]
        row_reqs = [bytes.fromhex(r[1]) for r in rows]
        sys_limit = __import__("sys").getrecursionlimit()
        __import__("sys").setrecursionlimit(max(sys_limit, 5000))
        memo: dict[tuple[int, int, frozenset[int]], Any] = {}

        def match(i: int, j: int, used: frozenset[int]) -> Any:
            key = (i, j, used)
            if key in memo:
                return memo[key]
            if i == len(rows):
                out_ = [] if j == len(mand) else None
                memo[key] = out_
                return out_
            best = None
            vt = rows[i][4] - world.epoch

            def fits(x: dict[str, Any]) -> bool:
                # the send stamp is taken when request() is entered: not after the first byte on the wire,
                # and for planned calls not before the call
                hi = x["x"]["t0"] + 1e-4
                # (a foreign task may have waited arbitrarily long for the client before its bytes hit the wire)
                lo = (x["call"]["t0"] if x["call"] is not None else -1e9) - 1e-4
                return x["req"] == row_reqs[i] and lo <= vt <= hi

            if j < len(mand) and fits(mand[j]):
                sub = match(i + 1, j + 1, used)
                if sub is not None:
                    best = [mand[j]] + sub
            if best is None:
                def agrees(o: dict[str, Any]) -> int:
                    # among twins (same bytes, overlapping time windows) prefer the exchange whose recorded details agree
                    c_ = o["call"]
                    if c_ is None or c_["out"] not in ("return", "raise"):
                        return 0
                    want_mode_ = "emphasized" if c_["analyze"] else "implicit"
                    rp_ = bytes.fromhex(rows[i][2]) if rows[i][2] is not None else None
                    return 0 if (rows[i][7] == want_mode_ and rp_ == o["reply"]) else 1

                cands = sorted((oi for oi, o in enumerate(opt) if oi not in used and fits(o)), key=lambda oi: (agrees(opt[oi]), abs(opt[oi]["x"]["t0"] - vt)))
                for oi in cands:
                    sub = match(i + 1, j, used | {oi})
                    if sub is not None:
                        best = [opt[oi]] + sub
                        break
            memo[key] = best
            return best

        if ins["fired"]:
            # injected storage fault: the handler re-queues the row, so only completeness and content are judged, not order
            used_e: set[int] = set()
            allx = mand + opt
            pairing = []
            for i_ in range(len(rows)):
                vt_ = rows[i_][4] - world.epoch
                best_k, best_d = None, None
                for k_, x_ in enumerate(allx):
                    if k_ in used_e or x_["req"] != row_reqs[i_]:
                        continue
                    hi_ = x_["x"]["t0"] + 1e-4
                    lo_ = (x_["call"]["t0"] if x_["call"] is not None else -1e9) - 1e-4
                    if not lo_ <= vt_ <= hi_:
                        continue
                    c__ = x_["call"]
                    agree_ = 0
                    if c__ is not None and c__["out"] in ("return", "raise"):
                        rp__ = bytes.fromhex(rows[i_][2]) if rows[i_][2] is not None else None
                        agree_ = 0 if (rows[i_][7] == ("emphasized" if c__["analyze"] else "implicit") and rp__ == x_["reply"]) else 1
                    d_ = (agree_, round(abs(x_["x"]["t0"] - vt_), 5))
                    if best_d is None or d_ < best_d:
                        best_k, best_d = k_, d_
                if best_k is None:
                    pairing = None
                    break
                used_e.add(best_k)
                pairing.append(allx[best_k])
            if pairing is not None and any(k_ not in used_e for k_ in range(len(mand))):
                miss = next(mand[k_] for k_ in range(len(mand)) if k_ not in used_e)
                violation(res, "C11/rows", f"C11/rows:missing-after-close:storage-fault",
                          f"a completed exchange has no row after the handler was closed although the storage fault was transient: {miss['req'].hex()} (actor {miss['x']['actor']}, t0={miss['x'].get('t0')}); rows {len(rows)}, injected 'database is locked' x{ins['fired']}")
                return
            bump(res["faults"], "db_locked_on_insert", ins["fired"])
        else:
            pairing = match(0, 0, frozenset())
        if pairing is None:
            # explain: first row / mandatory exchange that cannot be placed
            j = 0
            for ri, rq_b in enumerate(row_reqs):
                if j < len(mand) and mand[j]["req"] == rq_b:
                    j += 1
                elif any(o["req"] == rq_b for o in opt):
                    continue
                else:
                    nxt = mand[j] if j < len(mand) else None
                    if nxt is None or all(m["req"] != rq_b for m in mand[j:]):
                        violation(res, "C11/rows", "C11/rows:extra-row", f"row id {rows[ri][0]} ({rows[ri][1]}) has no corresponding exchange on the wire (rows {len(rows)}, exchanges {len(exchanges)})")
                    else:
                        violation(res, "C11/rows", "C11/rows:order-or-missing",
                                  f"row id {rows[ri][0]} holds request {rows[ri][1]} but the next exchange on the wire is {nxt['req'].hex()} (actor {nxt['x']['actor']}); a row is missing or out of order")
                    return
            kind = crash["kind"] if crash else "none"
            x = mand[j] if j < len(mand) else mand[-1]
            violation(res, "C11/rows", f"C11/rows:missing-after-close:crash={kind}",
                      f"{len(mand) - j} completed exchange(s) have no row after the handler was closed; first: {x['req'].hex()} (actor {x['x']['actor']}, t0={x['x'].get('t0')}); rows {len(rows)}, exchanges {len(exchanges)}, run ended by {out['kind']}")
            return
        n_checked = 0
        i = len(expected)
        for row, x in zip(rows, pairing):
            rid, rq, rp, exc, t_req, t_resp, state, mode = row
            rp_b = bytes.fromhex(rp) if rp is not None else None
            n_checked += 1
            c = x["call"]
            judged_reply = not (x["optional"] and (c is None or c["out"] not in ("return", "raise")))
            if judged_reply and rp_b != x["reply"]:
                violation(res, "C11/bytes", f"C11/bytes:response_pdu:{'null' if rp_b is None else 'differs' if x['reply'] is not None else 'spurious'}",
                          f"row {rid} request {rq}: response_pdu {rp} but the reply on the wire / returned to the caller was {x['reply'].hex() if x['reply'] else None}")
            if x["exc"] != "?" and judged_reply:
                if (exc is None) != (x["exc"] is None):
                    violation(res, "C11/exception", f"C11/exception-column:{'missing' if exc is None else 'spurious'}", f"row {rid} request {rq}: exception column {exc!r}, the call raised {x['exc']}")
                elif exc is not None and not exc.startswith(x["exc"]):
                    violation(res, "C11/exception", "C11/exception-column:other-class", f"row {rid}: exception column {exc[:60]!r}, the call raised {x['exc']}")
            if t_resp is not None and not t_req <= t_resp:
                violation(res, "C11/times", "C11/times:request-after-response", f"row {rid}: request_time {t_req} > response_time {t_resp}")
            vt_req = t_req - world.epoch
            t_call = c["t0"] if c is not None else None
            lo = (t_call if t_call is not None else 0.0) - 1e-4
            hi = x["x"]["t0"] + 1e-4
            if c is not None and "seq" in x["x"] and not lo <= vt_req <= hi:
                violation(res, "C11/times", "C11/times:request-time-window", f"row {rid}: request_time {vt_req:.6f} outside [call {lo:.6f}, first byte on the wire {hi:.6f}]")
            if c is not None and "seq" in x["x"]:
                want_state = x["x"].get("state") or c["state"]
                if json.loads(state) != want_state:
                    violation(res, "C11/state", "C11/state:differs", f"row {rid} request {rq}: state {state} but the client's view when the request went on the wire was {want_state}")
                want_mode = "emphasized" if c["analyze"] else "implicit"
                if mode != want_mode:
                    violation(res, "C11/mode", f"C11/mode:{mode}-want-{want_mode}", f"row {rid}: log_mode {mode}, expected {want_mode}")
            if c is None and "seq" in x["x"] and x["x"].get("state") is not None and json.loads(state) != x["x"]["state"]:
                # requests of other tasks (tester-present worker, setup code): the view when THEIR request went on the wire
                violation(res, "C11/state", "C11/state:differs:other-task", f"row {rid} request {rq} (task {x['x']['actor']}): state {state} but the client's view when the request went on the wire was {x['x']['state']}")
            if x["must_absent"]:
                violation(res, "C11/rows", "C11/rows:recorded-while-logging-off", f"row {rid} ({rq}) was recorded although implicit logging was switched off")
        rest = [x for x in expected[i:] if not x["optional"]]
        if rest:
            x = rest[0]
            kind = crash["kind"] if crash else "none"
            violation(res, "C11/rows", f"C11/rows:missing-after-close:crash={kind}",
                      f"{len(rest)} completed exchange(s) have no row after the handler was closed; first: {x['req'].hex()} (actor {x['x']['actor']}, ended t={x['x'].get('t1')}); rows {len(rows)}, exchanges {len(exchanges)}, run ended by {out['kind']}")
        # shape / accounting
        outs = []
        for c in cmd.calls:
            o = c["out"] + (":" + c.get("exc", "") if c["out"] == "raise" else "")
            outs.append(o)
        comp: list[str] = []
        for o in outs:
            if not comp or comp[-1] != o:
                comp.append(o)
        res["shape"] = f"{'dblocked|' if ins['fired'] else ''}{crash['kind'] if crash else 'nocrash'}|tp{plan['tp']}|lat{plan['db_lat']}|{'tog' if toggles else ''}|" + ",".join(comp[:25]) + f"|{out['kind']}"
        fault_n = sum(1 for o in plan["outcomes"][: peer.n_main] if o != "asis")
        res["nontrivial"] = bool(fault_n or toggles or crash)
        for o in plan["outcomes"][: peer.n_main]:
            if o != "asis":
                bump(res["faults"], "peer_" + o)
        if crash:
            bump(res["faults"], "crash_" + crash["kind"])
        if ins.get("meta_fired"):
            bump(res["faults"], "db_locked_on_run_meta_update")
        if world.sql.lock_waits:
            bump(res["faults"], "database_locked_by_another_process_within_the_busy_timeout", world.sql.lock_waits)
        if sig_t is not None:
            bump(res["probes"], "sigint_fired")
        if toggles:
            bump(res["faults"], "logging_toggled", len(toggles))
        bump(res["probes"], "rows_checked", n_checked)
        if getattr(cmd, "backlog_at_crash", 0) > 1000:
            bump(res["probes"], "over_1000_rows_queued_when_the_run_was_interrupted")
        if plan.get("backlog"):
            bump(res["faults"], "database_far_slower_than_the_ecu")
        if getattr(cmd, "n_state_resets", 0):
            bump(res["faults"], "client_state_reset_by_power_cycle", cmd.n_state_resets)
        if plan.get("state_race"):
            bump(res["faults"], "tester_present_queued_behind_slow_session_changes")
        if world.sql.orphaned:
            bump(res["probes"], "db_ops_completed_after_caller_cancelled", world.sql.orphaned)

    def _logging_timeline(self, ev: list[list[Any]]) -> Any:
        points = [(e[1], e[4]["on"]) for e in ev if e[3] == "toggle"]

        def on_at(t: float) -> bool:
            state = True
            for tt, on in points:
                if tt <= t + 1e-12:
                    state = on
            return state

        return on_at


def make() -> Check:
    return C11()
