"""C12 - a database-backed virtual ECU replays the recorded ECU's answers.

Phase R: real ECU + DBHandler (SimSqlite, real sqlite3 file) <-> SimNet <-> real handle_client <->
RandomUDSServer, one or several recordings (ECUs / runs) into one database.
Phase P: real DBUDSServer on that file behind UDSServerTransport.handle_request (a share through
the real DbVirtualECU command), fed the recorded request sequence from the default state.
"""

from __future__ import annotations

import asyncio
import json
import sqlite3
from dataclasses import dataclass
from pathlib import Path
from typing import Any

from simcheck.c13 import SUBFUNC, gen_history, make_params
from simkit.cmdworld import CmdWorld
from simkit.harness import Check, bump, new_result, rng_for, violation
from simkit.net import Policy

from gallia.command.base import AsyncScriptConfig
from gallia.db.handler import DBHandler
from gallia.services.uds.core import service
from gallia.services.uds.ecu import ECU, ECUProperties
from gallia.services.uds.server import DBUDSServer, RandomUDSServer, UDSServerTransport
from gallia.transports import TargetURI
from gallia.transports.tcp import TCPLinesTransport


@dataclass
class TaggedProperties(ECUProperties):
    run_tag: int = 0
    sw_version: str = ""


class RecConfig(AsyncScriptConfig):
    pass


def is_silent_op(op: dict[str, Any]) -> bool:
    if "dyn" in op:
        return bool(op.get("suppress"))
    pdu = bytes.fromhex(op["pdu"])
    return pdu[0] in SUBFUNC and len(pdu) >= 2 and bool(pdu[1] & 0x80)


class C12(Check):
    prop = "C12"
    level = "exploration"
    rule = (
        "databases with 1-3 recordings (1-3 ECU models = seeds x randomness parameters, an ECU may be recorded twice) x histories of 1-60 requests over session "
        "changes, seed/key pairs (right / wrong key), resets, reads, writes, routines, DTC reads, repeated identical requests x selection {ECU name, "
        "properties, both, none (single recording)} x replay engine {DBUDSServer direct, real DbVirtualECU command on SimNet} x database latency x discovery run that registered the addresses first x ECUs reachable under two addresses x wall clock stepped back while recording; the "
        "'silent rows' configuration additionally keeps suppress-bit requests and loses drawn replies on the network (rows without reply) or delays them beyond the tester's timeout (rows with a foreign reply) and is counted separately. non-trivial = the replayed "
        "history contains a state change or a repeated request with different answers; distinct = (selection, engine, sequence of reply classes)."
    )
    assumptions = [
        "'recorded reply' = scan_result.response_pdu of the selected recording (whether that equals the wire bytes is C11)",
        "recording gaps < 10 s (no inactivity reset on the recorded ECU); replay paced below 10 s",
        "selection by name only when that ECU has one recording; no selection only when the database holds a single recording",
    ]
    components = {
        "ECU._request + DBHandler (queue, writer task), DB schema": "real on SimSqlite (real sqlite3 file)",
        "RandomUDSServer + handle_client + tcp-lines transport (recording)": "real on SimNet",
        "DBUDSServer.respond_after_default, UDSServer.respond/update_state, handle_request (replay)": "real",
        "DbVirtualECU command (share of replays)": "real on SimNet",
    }
    shrink_lists = ["recs.0.ops", "recs.1.ops", "recs.2.ops", "recs"]
    quick_runs = 700
    thorough_runs = 60000
    chunk = 10
    smoke_runs = 6

    def setup_process(self) -> None:
        pass

    def gen(self, seed: int, index: int, tier: str) -> dict[str, Any]:
        rng = rng_for(seed, "C12", index)
        plan: dict[str, Any] = {"prop": "C12", "index": index}
        plan["silent"] = rng.random() < 0.3
        n_ecus = rng.choice([1, 1, 2, 3])
        ecus = []
        for e in range(n_ecus):
            params = make_params(rng)
            if rng.random() < 0.6:
                params.update({"p_service": rng.choice([0.5, 1.0]), "p_sub_function": rng.choice([0.1, 0.5]), "p_identifier": rng.choice([0.3, 1.0]), "p_correct_payload_format": 1.0})
            if "mandatory_services" not in params or 0x10 not in params["mandatory_services"]:
                params["mandatory_services"] = [0x10, 0x27, 0x22, 0x11, 0x3E]
            # some ECUs are reachable under two addresses (two gateways / interfaces): both are linked to the one ECU name
            ecus.append({"name": f"ecu{e}", "seed": rng.choice([1, 3, rng.getrandbits(32)]), "params": params, "port": 100 + e, "two_addresses": rng.random() < 0.3})
        plan["ecus"] = ecus
        n_recs = rng.choice([1, 1, 2, 3])
        recs = []
        for r in range(n_recs):
            e = rng.randrange(n_ecus)
            srv = RandomUDSServer(ecus[e]["seed"], RandomUDSServer.RandomnessParameters(**ecus[e]["params"]))
            try:
                srv.randomize()
                services = {s: {int(k): v for k, v in sv.items()} for s, sv in srv.services.items()}
            except Exception:  # noqa: BLE001
                services = {1: {0x10: [1]}}
            ops = gen_history(rng, services, rng.choice([1, 5, 20, 40, 60] if tier == "quick" else [20, 60, 150]))
            # repeated identical requests
            if ops and rng.random() < 0.5:
                for _ in range(rng.choice([1, 3])):
                    ops.insert(rng.randrange(len(ops) + 1), dict(rng.choice([o for o in ops if "dyn" not in o] or [{"pdu": "3e00", "gap": 0}])))
            for op in ops:
                if op.get("gap", 0) and op["gap"] > 2.0:
                    op["gap"] = 2.0
            if not plan["silent"]:
                ops = [o for o in ops if not is_silent_op(o)]
            drops = sorted(rng.sample(range(len(ops)), min(len(ops), rng.choice([0, 1, 2, 4])))) if plan["silent"] and ops else []
            if plan["silent"] and len(ops) >= 8 and rng.random() < 0.25:
                # a longer stretch without any answer (the ECU reboots): several silent rows in a row
                a_ = rng.randrange(0, len(ops) - 6)
                drops = sorted(set(drops) | set(range(a_, a_ + rng.choice([5, 6, 7]))))
            lates = sorted(rng.sample(range(len(ops)), min(len(ops), rng.choice([0, 1, 2])))) if plan["silent"] and ops and rng.random() < 0.4 else []
            recs.append({"ecu": e, "ops": ops, "tag": r, "drops": drops, "lates": lates, "via": rng.randrange(2) if ecus[e]["two_addresses"] else 0})
        plan["recs"] = recs
        plan["replay"] = rng.randrange(n_recs)
        plan["select"] = rng.choice(["name", "props", "both", "none"])
        plan["via_command"] = rng.random() < 0.2
        # the tester that talks to the replaying ECU takes its time between requests (always below the 10 s inactivity limit)
        plan["replay_pace"] = rng.choice([0.01, 0.01, 1.5, 2.5])
        # the recording host's wall clock is stepped back during a run (NTP correction, VM resume): row order is the order
        # of transmission, whatever the time stamps say
        plan["clock_back"] = rng.choice([0.5, 30.0, 3600.0]) if rng.random() < 0.15 else 0.0
        # the usual workflow: a discovery run found the endpoints (and some others) before any of them was scanned
        plan["discovery"] = None
        if rng.random() < 0.35:
            urls = [f"tcp-lines://ecu:{e['port']}" for e in ecus] + [f"tcp-lines://ecu-b:{e['port']}" for e in ecus if e["two_addresses"]] + [f"tcp-lines://other:{k}" for k in range(rng.choice([0, 1, 3]))]
            rng.shuffle(urls)
            plan["discovery"] = urls
        plan["db_lat"] = rng.choice([0.0001, 0.002, 0.02])
        # a second writer holds the database's write lock now and then while recording (another gallia process recording into the
        # same file), always for less than the handler's busy timeout: the rows must come out in the order of the requests
        rng6 = rng_for(seed, "C12-db-busy", index)
        # the same tester comes back after more than 10 s of silence (the ECU is in its default state again) and asks everything once more
        plan["second_pass"] = rng6.random() < 0.25
        plan["db_busy"] = [[round(rng6.uniform(0.0, 3.0), 3), rng6.choice([0.05, 0.5, 3.0])] for _ in range(rng6.choice([1, 3]))] if rng6.random() < 0.2 else []
        plan["net_seed"] = rng.getrandbits(30)
        return plan

    def simplify(self, plan: dict[str, Any]) -> Any:
        import copy

        if plan["via_command"]:
            p = copy.deepcopy(plan)
            p["via_command"] = False
            yield p
        if plan.get("discovery"):
            p = copy.deepcopy(plan)
            p["discovery"] = None
            yield p
        if plan.get("clock_back"):
            p = copy.deepcopy(plan)
            p["clock_back"] = 0.0
            yield p
        if len(plan["recs"]) > 1:
            p = copy.deepcopy(plan)
            p["recs"] = [plan["recs"][plan["replay"] % len(plan["recs"])]]
            p["replay"] = 0
            yield p

    def run(self, plan: dict[str, Any]) -> dict[str, Any]:
        res = new_result()
        if not plan["recs"]:
            return res
        world = CmdWorld(seed=plan["net_seed"], log_level=100)
        try:
            self._run(plan, world, res)
        finally:
            world.uninstall()
            world.destroy()
        return res

    def _run(self, plan: dict[str, Any], world: CmdWorld, res: dict[str, Any]) -> None:
        tmp = Path(world.tmp)
        dbpath = tmp / "rec.sqlite"
        world.net.policy_factory = lambda i, d: Policy(seed=plan["net_seed"] + 2 * i + (d == "s2c"), segment="random")
        world.sql.latency = lambda c, n: plan["db_lat"]
        for t0_, dur_ in plan.get("db_busy") or []:
            world.sql.lock_windows.append((t0_, t0_ + dur_))
        world.install()
        recs = plan["recs"]
        ri = plan["replay"] % len(recs)
        target_rec = recs[ri]
        names_count: dict[int, int] = {}
        for r in recs:
            names_count[r["ecu"]] = names_count.get(r["ecu"], 0) + 1
        select = plan["select"]
        if select == "none" and len(recs) > 1:
            select = "props"
        if select == "name" and names_count[target_rec["ecu"]] > 1:
            select = "both"
        holder: dict[str, Any] = {"replies": []}
        loop = world.loop

        import gallia.services.uds.server as server_mod

        class LossyTransport(server_mod.TCPUDSServerTransport):
            """gallia's server loop; the reply to the next request can be lost on the way back (silent-rows configuration)."""

            drop_next = False
            late_next = False

            async def handle_request(self, request_pdu: bytes) -> tuple[bytes | None, float]:
                reply, dt = await super().handle_request(request_pdu)
                if self.drop_next:
                    self.drop_next = False
                    return None, dt
                if self.late_next:
                    # the ECU needs longer than the tester waits: its answer arrives while the tester already asks the next question
                    self.late_next = False
                    await asyncio.sleep(0.7)
                return reply, dt

        async def record() -> None:
            servers = {}
            lossy = {}
            for e in plan["ecus"]:
                srv = RandomUDSServer(e["seed"], RandomUDSServer.RandomnessParameters(**e["params"]))
                await srv.setup()
                tr_ = LossyTransport(srv, TargetURI(f"tcp://ecu:{e['port']}"))
                t_ = world.loop.create_task(tr_.run())
                world.vecu_tasks.append(t_)
                await asyncio.sleep(0)
                servers[e["name"]] = srv
                lossy[e["name"]] = tr_
                if e.get("two_addresses"):
                    tr_b = LossyTransport(srv, TargetURI(f"tcp://ecu-b:{e['port']}"))
                    t_b = world.loop.create_task(tr_b.run())
                    world.vecu_tasks.append(t_b)
                    await asyncio.sleep(0)
                    lossy[e["name"] + "/b"] = tr_b
            if plan.get("discovery"):
                from gallia.command.base import datetime as _dt0
                from datetime import UTC as _UTC0

                db0 = DBHandler(dbpath)
                await db0.connect()
                await db0.insert_run_meta(script="simcheck.c12.Discovery", config=RecConfig(db=dbpath), start_time=_dt0.now(_UTC0).astimezone(), path=None)
                await db0.insert_discovery_run("tcp-lines")
                for u in plan["discovery"]:
                    await db0.insert_discovery_result(u)
                await db0.disconnect()
            for r in recs:
                e = plan["ecus"][r["ecu"]]
                # a fresh ECU power-up per recording: default state
                servers[e["name"]].state.reset()
                db = DBHandler(dbpath)
                await db.connect()
                cfg = RecConfig(db=dbpath)
                from gallia.command.base import datetime as _dt  # the seam CmdWorld installed
                from datetime import UTC

                await db.insert_run_meta(script="simcheck.c12.Recorder", config=cfg, start_time=_dt.now(UTC).astimezone(), path=None)
                via_b = bool(r.get("via")) and e.get("two_addresses")
                url = f"tcp-lines://{'ecu-b' if via_b else 'ecu'}:{e['port']}"
                lossy_key = e["name"] + ("/b" if via_b else "")
                await db.insert_scan_run(url)
                await db.insert_scan_run_properties_pre(TaggedProperties(run_tag=r["tag"], sw_version=f"v{r['ecu']}"))
                tr = await TCPLinesTransport.connect(url)
                ecu = ECU(tr, timeout=0.5, max_retry=0)
                ecu.db_handler = db
                last_seed: bytes | None = None
                for oi, op in enumerate(r["ops"]):
                    if op.get("gap"):
                        await asyncio.sleep(op["gap"])
                    if plan.get("clock_back") and oi % 4 == 3:
                        world.epoch -= plan["clock_back"]
                        holder["clock_steps"] = holder.get("clock_steps", 0) + 1
                    if oi in r.get("drops", []):
                        lossy[lossy_key].drop_next = True
                    if oi in r.get("lates", []):
                        lossy[lossy_key].late_next = True
                        holder["lates"] = holder.get("lates", 0) + 1
                    if "dyn" in op:
                        key = last_seed if last_seed is not None else b"\x00"
                        if op["wrong"]:
                            key = bytes([key[0] ^ 0xFF]) + key[1:] if key else b"\x01"
                        pdu = bytes([0x27, op["sub"] | (0x80 if op["suppress"] else 0)]) + key
                    else:
                        pdu = bytes.fromhex(op["pdu"])
                    req = service.UDSRequest.parse_dynamic(pdu)
                    try:
                        resp = await ecu.request(req)
                        if resp.pdu[0] == 0x67 and len(resp.pdu) >= 2 and resp.pdu[1] % 2 == 1:
                            last_seed = resp.pdu[2:]
                    except Exception as ex:  # noqa: BLE001
                        world.rec.rec("rec_exc", error=type(ex).__name__)
                await tr.close()
                await db.disconnect()
            holder["recorded"] = True

        out = world.run_cli(record, vcap=20000.0, stepcap=5_000_000)
        if out["kind"] != "return":
            if out["kind"] == "hung":
                violation(res, "C12/liveness", "C12/liveness:record", f"recording never finished: {out['pending']}")
                return
            exc = out.get("exc")
            tb = getattr(exc, "__traceback__", None)
            files = []
            while tb is not None:
                files.append(tb.tb_frame.f_code.co_filename)
                tb = tb.tb_next
            while files and "/simkit/" in files[-1]:
                files.pop()  # the seam fakes (sqlite engine, streams) only pass on what the real engine / peer said
            where = files[-1] if files else ""
            if "/gallia/" in where and "/verif/" not in where:
                # fault-free recording through gallia's own DBHandler / client / server: an exception from there is gallia's
                violation(res, "C12/record", f"C12/record:exception:{type(exc).__name__}", f"recording a run failed inside gallia ({where.rsplit('/gallia/', 1)[-1]}): {exc!r}")
                return
            raise RuntimeError(f"recording failed: {out}")
        world.sql.close_all()
        if world.sql.lock_waits:
            bump(res["faults"], "database_locked_by_a_second_writer_while_recording", world.sql.lock_waits)
        res["vtime"] += out["vtime"]
        res["steps"] += out["steps"]

        # the database as a user would prepare it: name the ECUs, link the addresses
        con = sqlite3.connect(dbpath)
        for e in plan["ecus"]:
            cur = con.execute("INSERT INTO ecu(name, oem) VALUES (?, 'default')", (e["name"],))
            con.execute("UPDATE address SET ecu = ? WHERE url IN (?, ?)", (cur.lastrowid, f"tcp-lines://ecu:{e['port']}", f"tcp-lines://ecu-b:{e['port']}"))
        con.commit()
        runs = [r[0] for r in con.execute("SELECT id FROM scan_run ORDER BY id").fetchall()]
        if len(runs) != len(recs):
            con.close()
            raise RuntimeError(f"{len(runs)} scan_run rows for {len(recs)} recordings")
        rows = con.execute("SELECT id, request_pdu, response_pdu, state FROM scan_result WHERE run = ? ORDER BY id", (runs[ri],)).fetchall()
        con.close()
        if not rows:
            res["shape"] = "empty"
            return
        ename = plan["ecus"][target_rec["ecu"]]["name"] if select in ("name", "both") else None
        props = {"run_tag": target_rec["tag"]} if select in ("props", "both") else None

        # ---- phase P on a fresh world (new loop, same database file)
        world2 = CmdWorld(seed=plan["net_seed"] + 1, log_level=100)
        world2.sql.latency = lambda c, n: plan["db_lat"]
        world2.net.policy_factory = lambda i, d: Policy(seed=plan["net_seed"] + 7 + 2 * i + (d == "s2c"), segment="random")
        world.uninstall()
        world2.install()
        replies: list[Any] = []
        replies2: list[Any] = []
        states: list[Any] = []
        try:
            async def replay() -> None:
                if plan["via_command"]:
                    from gallia.commands.script.vecu import DbVirtualECU, DbVirtualECUConfig

                    cfg = DbVirtualECUConfig(target="tcp://vecu:1", path=dbpath, ecu=ename, properties=props)
                    cmd = DbVirtualECU(cfg)
                    t = world2.loop.create_task(cmd.entry_point())
                    world2.loop.keep.append(t)
                    for _ in range(100):
                        await asyncio.sleep(0.001)
                        if world2.net.listeners:
                            break
                    c = await TCPLinesTransport.connect("tcp-lines://vecu:1")
                    for row in rows:
                        await c.write(bytes.fromhex(row[1]))
                        try:
                            rep: bytes | None = await c.read(timeout=0.5)
                        except TimeoutError:
                            rep = None
                        replies.append(rep)
                        states.append(None)
                        await asyncio.sleep(plan.get("replay_pace", 0.01))
                    if plan.get("second_pass"):
                        await asyncio.sleep(11.0)
                        for row in rows:
                            await c.write(bytes.fromhex(row[1]))
                            try:
                                rep = await c.read(timeout=0.5)
                            except TimeoutError:
                                rep = None
                            replies2.append(rep)
                            await asyncio.sleep(plan.get("replay_pace", 0.01))
                    await c.close()
                    return
                server = DBUDSServer(dbpath, ename, props)
                await server.setup()
                st = UDSServerTransport(server, TargetURI("tcp://vecu:1"))
                for row in rows:
                    states.append({"session": server.state.session, "security_access_level": server.state.security_access_level})
                    rep, _ = await st.handle_request(bytes.fromhex(row[1]))
                    replies.append(rep)
                    await asyncio.sleep(plan.get("replay_pace", 0.01))
                if plan.get("second_pass"):
                    await asyncio.sleep(11.0)
                    for row in rows:
                        rep, _ = await st.handle_request(bytes.fromhex(row[1]))
                        replies2.append(rep)
                        await asyncio.sleep(plan.get("replay_pace", 0.01))
                await server.teardown()

            out2 = world2.run_cli(replay, vcap=20000.0, stepcap=5_000_000)
        finally:
            world2.uninstall()
            world2.destroy()
        res["vtime"] += out2["vtime"]
        res["steps"] += out2["steps"]
        if out2["kind"] == "hung":
            violation(res, "C12/liveness", "C12/liveness:replay", f"replay never finished: {out2['pending']}")
            return
        if out2["kind"] != "return":
            e = out2.get("exc")
            violation(res, "C12/replay-raised", f"C12/replay-raised:{type(e).__name__}", f"the replaying server raised {e!r}")
            return
        cfgname = "silent-rows" if plan["silent"] else "plain"
        prev_silent = False
        shape = []
        seen: dict[str, set[Any]] = {}
        for i, row in enumerate(rows):
            want = bytes.fromhex(row[2]) if row[2] is not None else None
            got = replies[i] if i < len(replies) else "missing"
            logged = json.loads(row[3])
            seen.setdefault(row[1], set()).add(row[2])
            shape.append("-" if want is None else "n" if want[0] == 0x7F else "p")
            if states[i] is not None and states[i] != logged:
                cause = "after-silent-row" if prev_silent else "other"
                violation(res, "C12/presupposition", f"C12/state-diverged:{cfgname}:{cause}",
                          f"row {i} ({row[1]}): the client logged state {logged} but the replaying server is in {states[i]} (previous row silent: {prev_silent})")
                break
            if got != want:
                cause = "after-silent-row" if prev_silent else ("silent-row" if want is None else "reply")
                violation(res, "C12/replay", f"C12/replay-differs:{cfgname}:{select}:{cause}",
                          f"row {i}: request {row[1]} recorded reply {row[2]} but the database-backed ECU answered {got.hex() if isinstance(got, bytes) else got} (selection {select}, {len(recs)} recordings)")
                break
            prev_silent = want is None
        if plan.get("second_pass") and not res["violations"] and len(replies2) == len(rows):
            bump(res["probes"], "sequence_replayed_a_second_time_after_the_inactivity_reset")
            for i, row in enumerate(rows):
                want = bytes.fromhex(row[2]) if row[2] is not None else None
                if replies2[i] != want:
                    violation(res, "C12/replay", f"C12/replay-differs:{cfgname}:{select}:second-pass",
                              f"second pass (after 11 s of silence), row {i}: request {row[1]} recorded reply {row[2]} but the database-backed ECU answered "
                              f"{replies2[i].hex() if isinstance(replies2[i], bytes) else replies2[i]} (first pass was exact)")
                    break
        res["trace"] = [[r[1], r[2]] for r in rows] + [[x.hex() if isinstance(x, bytes) else x for x in replies]]
        comp = []
        for s in shape:
            if not comp or comp[-1] != s:
                comp.append(s)
        res["shape"] = f"{cfgname}|{select}|{'cmd' if plan['via_command'] else 'direct'}|r{len(recs)}|" + "".join(comp[:30])
        varied = any(len(v) > 1 for v in seen.values())
        state_change = any(json.loads(r[3]) != {"session": 1, "security_access_level": None} for r in rows)
        res["nontrivial"] = varied or state_change
        if varied:
            bump(res["probes"], "repeated_request_different_answers")
        if state_change:
            bump(res["probes"], "history_with_state_change")
        if any(r[2] is None for r in rows):
            bump(res["probes"], "history_with_silent_row")
        bump(res["faults"], "config_" + cfgname)
        if len(recs) > 1:
            bump(res["faults"], "multi_recording_db")
        if plan.get("discovery"):
            bump(res["faults"], "addresses_known_from_discovery_run")
        if target_rec.get("via") and plan["ecus"][target_rec["ecu"]].get("two_addresses"):
            bump(res["faults"], "replayed_run_recorded_over_the_ecus_second_address")
        if holder.get("lates"):
            bump(res["faults"], "reply_later_than_the_testers_timeout", holder["lates"])
        if holder.get("clock_steps"):
            bump(res["faults"], "wall_clock_stepped_back_while_recording", holder["clock_steps"])


def make() -> Check:
    return C12()
