"""C08 - connection loss surfaces as a bounded-time error and the next attempt recovers.

Every transport (tcp-lines, unix-lines, DoIP, HSFZ) against a peer that answers correctly;
the first connection is cut (EOF / RST / black hole / stall) at a byte offset of either
direction; operations under test: transport read/write, UDSClient.request with retries,
ECU.wait_for_ecu; then close() twice.
"""

from __future__ import annotations

import asyncio
from typing import Any

from simcheck.c06 import DoIPProto
from simcheck.c07 import HSFZProto
from simkit.harness import Check, bump, new_result, rng_for, violation
from simkit.loop import sim_run
from simkit.net import Cut, Policy, SimNet
from simkit.world import Recorder, quiet_logging

from gallia.services.uds.core import service
from gallia.services.uds.core.client import UDSClient
from gallia.services.uds.core.constants import UDSIsoServices
from gallia.services.uds.ecu import ECU
from gallia.services.uds.server import TCPUDSServerTransport, UDSServer, UDSServerTransport, UnixUDSServerTransport
from gallia.transports import TargetURI
from gallia.transports.doip import DoIPTransport
from gallia.transports.hsfz import HSFZTransport
from gallia.transports.tcp import TCPLinesTransport
from gallia.transports.unix import UnixLinesTransport

SCHEMES = ["tcp-lines", "unix-lines", "doip", "hsfz"]
OPS = ["t_read", "request", "wait"]
KINDS = ["EOF", "RST", "BLACKHOLE", "STALL"]
REQ = bytes.fromhex("22f190")
REPLY = bytes.fromhex("62f190") + b"VIN0123456"
PING = bytes.fromhex("3e00")
PONG = bytes.fromhex("7e00")
SLACK = 0.06
ACK = {"tcp-lines": 0.0, "unix-lines": 0.0, "doip": 2.0, "hsfz": 1.0}


class FixedECU(UDSServer):
    @property
    def supported_services(self) -> dict[int, dict[UDSIsoServices, list[int] | None]]:
        return {1: {UDSIsoServices.DiagnosticSessionControl: [1], UDSIsoServices.TesterPresent: [0], UDSIsoServices.ReadDataByIdentifier: None}}

    async def respond_after_default(self, request: service.UDSRequest) -> service.UDSResponse | None:
        if isinstance(request, service.ReadDataByIdentifierRequest):
            return service.ReadDataByIdentifierResponse(request.data_identifier, b"VIN0123456")
        return None


class LiveGateway:
    """DoIP / HSFZ gateway that behaves correctly: activation, ack, reply from the UDS server."""

    def __init__(self, loop: Any, proto: Any, uds: UDSServerTransport, pending: bool = False, ack_delay: float = 0.0) -> None:
        self.loop = loop
        self.proto = proto
        self.uds = uds
        self.pending = pending
        self.ack_delay = ack_delay  # a gateway that is slow to acknowledge (but within the configured ack time)
        self.strict: dict[str, int] | None = None  # DoIP: the only tester (address, activation type, version) this gateway activates
        self.requests: list[bytes] = []
        self.sent_replies: list[bytes] = []
        self.accepted = 0

    async def handle(self, reader: asyncio.StreamReader, writer: asyncio.StreamWriter) -> None:
        self.accepted += 1
        buf = b""
        try:
            while True:
                chunk = await reader.read(65536)
                if not chunk:
                    break
                buf += chunk
                while True:
                    frame, used = self.proto.parse(buf)
                    if frame is None:
                        break
                    buf = buf[used:]
                    if frame["kind"] == "activation":
                        code = 0x10
                        if self.strict is not None:
                            import struct

                            want = struct.pack("!HBL", self.strict["src"], self.strict["act"], 0)
                            if frame["ver"] != self.strict["ver"] or frame["inv"] != self.strict["ver"] ^ 0xFF or frame["body"] != want:
                                code = 0x00  # unknown source address / unsupported activation: denied
                        writer.write(self.proto.build({"f": "act", "code": code}, self))
                    elif frame["kind"] == "data":
                        self.requests.append(frame["payload"])
                        n = len(self.requests) - 1
                        if self.ack_delay:
                            await asyncio.sleep(self.ack_delay)
                        writer.write(self.proto.build({"f": "ack", "req": n}, self))
                        reply, _ = await self.uds.handle_request(frame["payload"])
                        if reply is not None:
                            if self.pending and frame["payload"][:1] != b"\x3e":
                                writer.write(self.proto.build({"f": "data_raw", "payload": bytes([0x7F, frame["payload"][0], 0x78])}, self))
                                await writer.drain()
                                await asyncio.sleep(0.1)
                            writer.write(self.proto.build({"f": "data_raw", "payload": reply}, self))
                    await writer.drain()
        except ConnectionError:
            pass


class _DoIP(DoIPProto):
    def build(self, spec: dict[str, Any], gw: Any) -> bytes:
        if spec["f"] == "data_raw":
            import struct

            return self.hdr(0x8001, struct.pack("!HH", self.target, self.src) + spec["payload"])
        return super().build(spec, gw)


class _HSFZ(HSFZProto):
    def build(self, spec: dict[str, Any], gw: Any) -> bytes:
        if spec["f"] == "data_raw":
            import struct

            body = bytes([self.ecu, self.tester]) + spec["payload"]
            return struct.pack("!IH", len(body), 0x01) + body
        return super().build(spec, gw)


def uri_for(scheme: str, ack_ms: int = 1000, doip: dict[str, int] | None = None) -> str:
    if scheme == "hsfz" and ack_ms != 1000:
        return f"hsfz://h:6801?src_addr=0xf4&dst_addr=0x10&ack_timeout={ack_ms}"
    if scheme == "doip" and doip:
        return f"doip://h:13400?src_addr={doip['src']:#06x}&target_addr=0x1d&activation_type={doip['act']:#04x}&protocol_version={doip['ver']}"
    return {
        "tcp-lines": "tcp-lines://h:1",
        "unix-lines": "unix-lines:///sim/ecu.sock",
        "doip": "doip://h:13400?src_addr=0x0e00&target_addr=0x1d&activation_type=0x00",
        "hsfz": "hsfz://h:6801?src_addr=0xf4&dst_addr=0x10&ack_timeout=1000",
    }[scheme]


def cls_for(scheme: str) -> Any:
    return {"tcp-lines": TCPLinesTransport, "unix-lines": UnixLinesTransport, "doip": DoIPTransport, "hsfz": HSFZTransport}[scheme]


def addr_for(scheme: str) -> Any:
    return {"tcp-lines": ("tcp", "h", 1), "unix-lines": ("unix", "/sim/ecu.sock"), "doip": ("tcp", "h", 13400), "hsfz": ("tcp", "h", 6801)}[scheme]


class C08(Check):
    prop = "C08"
    level = "fault_enumeration"
    rule = (
        "transport {tcp-lines, unix-lines, DoIP, HSFZ} x operation {transport connect+write+read(T|None), UDSClient.request with max_retry 0-3, "
        "ECU.wait_for_ecu} x cut direction x cut kind {EOF, RST, black hole, stall} x EVERY byte offset of the fault-free conversation "
        "(measured by a dry run; the first part of the index space enumerates all single cuts) x peer restart delay {0, 0.1, 0.5, 11 s, never} x "
        "network latency/segmentation; later indices add random parameters. non-trivial = the cut fired while the operation was in flight; "
        "distinct = (transport, op, direction, kind, offset, outcome class)."
    )
    assumptions = [
        "cut kinds: EOF (peer closes; later client writes are answered by RST), RST, black hole (silence both ways), stall (delivery paused)",
        "T=None is combined with EOF/RST only (no implementation can bound silence without a timeout)",
        "recovery is demanded only for detectable loss (EOF/RST), max_retry >= 1 and a listener that accepted every reconnect attempt the client made or was back before the client's own back-off (UDSClient.retry_wait) had elapsed",
        "no kernel socket buffers / keep-alive; peers are correct (gateway models forward to gallia's UDSServerTransport.handle_request)",
    ]
    components = {
        "TCPLinesTransport, UnixLinesTransport, DoIPTransport/DoIPConnection, HSFZTransport/HSFZConnection, BaseTransport.reconnect": "real",
        "UDSClient.request, ECU.wait_for_ecu": "real",
        "line server": "real TCPUDSServerTransport.handle_client + UDSServer default rules",
        "DoIP/HSFZ gateway": "stub (correct behaviour), UDS answers from real handle_request",
    }
    shrink_lists: list[str] = []
    quick_runs = 30000
    thorough_runs = 3500000
    chunk = 150
    smoke_runs = 12

    def __init__(self) -> None:
        self._sizes: dict[tuple[str, str, bool], tuple[int, int]] = {}
        self._cells: list[tuple[str, str, str, str, int]] | None = None

    def setup_process(self) -> None:
        quiet_logging()

    # -- dry runs ---------------------------------------------------------------------------------
    def sizes(self, scheme: str, op: str, pending: bool = False) -> tuple[int, int]:
        key = (scheme, op, pending)
        if key not in self._sizes:
            plan = self._base_plan(scheme, op)
            plan["pending"] = pending
            plan["cuts"] = []
            res = self.run(plan, dry=True)
            self._sizes[key] = tuple(res["note"]["bytes"])  # type: ignore[assignment]
        return self._sizes[key]

    def cells(self) -> list[tuple[str, str, str, str, int]]:
        if self._cells is None:
            cells = []
            for scheme in SCHEMES:
                for op in OPS:
                    c2s, s2c = self.sizes(scheme, op)
                    for d, n in (("c2s", c2s), ("s2c", s2c)):
                        for at in range(0, n + 1):
                            for kind in KINDS:
                                cells.append((scheme, op, d, kind, at))
            self._cells = cells
        return self._cells

    def _base_plan(self, scheme: str, op: str) -> dict[str, Any]:
        return {"prop": "C08", "scheme": scheme, "op": op, "T": 1.0, "max_retry": 1, "restart": 0.0, "wait_timeout": 6.0,
                "net": {"seed": 1, "lat": [0.0002, 0.001], "segment": "whole"}, "cuts": [], "stall": 0.0, "pending": False}

    def gen(self, seed: int, index: int, tier: str) -> dict[str, Any]:
        rng = rng_for(seed, "C08", index)
        cells = self.cells()
        # quick enumerates every 2nd cell per seed-dependent phase plus random extras; thorough all
        if index < len(cells):
            scheme, op, d, kind, at = cells[index]
        else:
            scheme, op, d, kind, at = cells[rng.randrange(len(cells))]
        plan = self._base_plan(scheme, op)
        plan["index"] = index
        plan["T"] = rng.choice([0.5, 1.0, 2.5])
        if kind in ("EOF", "RST") and op == "t_read" and rng.random() < 0.3:
            plan["T"] = None
        plan["max_retry"] = rng.choice([0, 1, 1, 2, 3])
        plan["restart"] = rng.choice([0.0, 0.0, 0.1, 0.5, 11.0, None])
        plan["stall"] = rng.choice([0.1, 0.3, 5.0]) if kind == "STALL" else 0.0
        plan["net"] = {"seed": rng.getrandbits(30), "lat": rng.choice([[0.0001, 0.0005], [0.0005, 0.003]]),
                       "segment": rng.choice(["whole", "whole", "random", "bytes"])}
        if op == "request" and (index >= len(cells) or index % 3 == 0) and rng.random() < 0.5:
            # the peer announces responsePending before the reply: the loss can then also hit the poll loop
            plan["pending"] = True
            c2s_p, s2c_p = self.sizes(scheme, op, True)
            c2s_0, s2c_0 = self.sizes(scheme, op, False)
            if d == "s2c" and rng.random() < 0.7:
                at = rng.randrange(max(s2c_0 - (s2c_p - s2c_0) - 2, 0), s2c_p + 1)
        plan["cuts"] = [{"dir": d, "at": at, "kind": kind}]
        plan["linger"] = rng.choice([0.0, 0.0, 0.02]) if index >= len(cells) else 0.0
        plan["read_again"] = rng_for(seed, "C08-read-again", index).choice([None, None, "none", 0.5]) if op == "t_read" and kind in ("EOF", "RST") else None
        if index >= len(cells) and scheme == "hsfz" and rng.random() < 0.3:
            # a non-default acknowledgement time in the target URI and a gateway that needs more than the default to acknowledge:
            # the configured value must also hold on the connections made by a reconnect
            plan["ack_ms"] = rng.choice([2000, 3000])
            plan["ack_delay"] = rng.choice([1.2, 1.5])
            plan["T"] = 2.5  # the caller's timeout also bounds the write (ack wait included)
        if index >= len(cells) and scheme == "doip" and rng.random() < 0.3:
            # a tester configuration other than the defaults, and a gateway that activates exactly that tester: the
            # configured source address, activation type and protocol version must also be used by a reconnect
            plan["doip"] = {"src": rng.choice([0x0E00, 0x0E80, 0x0001]), "act": rng.choice([0x00, 0x01, 0xE0, 0x77]), "ver": rng.choice([2, 3])}
        if index >= len(cells) and kind in ("EOF", "RST") and rng.random() < 0.15:
            # the peer closes / resets the idle connection BEFORE the exchange starts (no byte of it is on the wire yet):
            # the cut is fired right after the connect, the operation starts 0.05 - 0.4 s later
            plan["cuts"] = [{"dir": "s2c", "at": 0, "kind": kind, "pre": rng.choice([0.05, 0.4])}]
        if index >= len(cells) and rng.random() < 0.25:
            # double fault: a second cut on the connection established by the reconnect
            s2, o2, d2, k2, a2 = cells[rng.randrange(len(cells))]
            c2s, s2c = self.sizes(scheme, op)
            plan["cuts"].append({"dir": d2, "at": a2 % ((c2s if d2 == "c2s" else s2c) + 1), "kind": rng.choice(["EOF", "RST"]), "conn": 1})
            if scheme == "doip" and kind in ("EOF", "RST") and rng.random() < 0.4:
                # the restarting gateway accepts the TCP connection but is not ready yet: it swallows the routing activation
                # request of the first reconnect attempt (the transport's own reconnect loop then tries again)
                plan["cuts"][-1] = {"dir": "c2s", "at": 0, "kind": "BLACKHOLE", "conn": 1}
        return plan

    def simplify(self, plan: dict[str, Any]) -> Any:
        import copy

        if plan["net"]["segment"] != "whole":
            p = copy.deepcopy(plan)
            p["net"]["segment"] = "whole"
            yield p
        if len(plan["cuts"]) > 1:
            p = copy.deepcopy(plan)
            p["cuts"] = p["cuts"][:1]
            yield p
        if plan.get("restart") not in (0.0,):
            p = copy.deepcopy(plan)
            p["restart"] = 0.0
            yield p
        if plan["max_retry"] > 1:
            p = copy.deepcopy(plan)
            p["max_retry"] = 1
            yield p

    # -- execution ------------------------------------------------------------------------------
    def run(self, plan: dict[str, Any], dry: bool = False) -> dict[str, Any]:
        res = new_result()
        scheme, op = plan["scheme"], plan["op"]
        holder: dict[str, Any] = {}
        ack = plan.get("ack_ms", 0) / 1000.0 or ACK[scheme]
        T = plan["T"]

        async def main(loop: Any) -> Any:
            rec = Recorder(loop)
            net = SimNet(loop, seed=plan["net"]["seed"])
            netp = plan["net"]
            net.policy_factory = lambda i, d: Policy(seed=netp["seed"] + 2 * i + (d == "s2c"), lat_min=netp["lat"][0], lat_max=netp["lat"][1], segment=netp["segment"])
            for c in plan["cuts"]:
                if c.get("pre"):
                    continue
                net.cuts.append(Cut(dir=c["dir"], at=c["at"], kind=c["kind"], conn=c.get("conn", 0), stall=plan.get("stall", 0.0)))
            net.install()
            holder.update(net=net, rec=rec)
            addr = addr_for(scheme)

            def on_cut(conn: Any, cut: Cut) -> None:
                rec.rec("cut", conn=conn.index, dir=cut.dir, at=cut.at, kind=cut.kind)
                if cut.kind == "STALL":
                    return
                r = plan.get("restart")
                if r == 0.0:
                    return
                net.set_listener(addr, "refuse")
                if r is not None:
                    loop.call_later(r, net.set_listener, addr, "accept")

            net.on_cut = on_cut
            server = FixedECU()
            if scheme in ("tcp-lines", "unix-lines"):
                st_cls = TCPUDSServerTransport if scheme == "tcp-lines" else UnixUDSServerTransport
                if plan.get("pending"):
                    base_cls = st_cls

                    class PendingLines(base_cls):  # type: ignore[misc, valid-type]
                        """gallia's connection loop with an ECU that needs time: 0x78 first, the reply 0.1 s later."""

                        async def handle_client(self, reader: Any, writer: Any) -> None:
                            try:
                                while True:
                                    line = await reader.readline()
                                    if not line:
                                        break
                                    pdu = bytes.fromhex(line.decode().strip())
                                    reply, _ = await self.handle_request(pdu)
                                    if reply is None:
                                        continue
                                    if pdu[:1] != b"\x3e":
                                        writer.write(bytes([0x7F, pdu[0], 0x78]).hex().encode() + b"\n")
                                        await writer.drain()
                                        await asyncio.sleep(0.1)
                                    writer.write(reply.hex().encode() + b"\n")
                                    await writer.drain()
                            except ConnectionError:
                                pass

                    st_cls = PendingLines
                st = st_cls(server, TargetURI("tcp://h:1" if scheme == "tcp-lines" else "unix:///sim/ecu.sock"))
                t = loop.create_task(st.run())
                loop.keep.append(t)
                await asyncio.sleep(0)
            else:
                dc = plan.get("doip")
                proto = _DoIP(dc["src"] if dc else 0x0E00, 0x1D, dc["ver"] if dc else 3) if scheme == "doip" else _HSFZ(0xF4, 0x10)
                lg = LiveGateway(loop, proto, UDSServerTransport(server, TargetURI("tcp://h:1")), pending=bool(plan.get("pending")), ack_delay=plan.get("ack_delay", 0.0))
                holder["gw"] = lg
                if scheme == "doip" and dc:
                    lg.strict = dict(dc)
                net.listen(addr, lg.handle)
            cls = cls_for(scheme)
            uri = uri_for(scheme, plan.get("ack_ms", 1000), plan.get("doip"))
            steps: list[dict[str, Any]] = []
            holder["steps"] = steps

            async def step(name: str, coro: Any, bound: float | None) -> tuple[str, Any]:
                t0 = loop.time()
                rec.rec("step_begin", name=name)
                try:
                    v = await coro
                    out: tuple[str, Any] = ("ok", v)
                except TimeoutError as e:
                    out = ("timeout" if type(e).__name__ != "MissingResponse" else "missing", type(e).__name__)
                except ConnectionError as e:
                    out = ("conn", type(e).__name__)
                except asyncio.CancelledError:
                    # nobody cancels this task: the cancellation leaked out of the code under test
                    out = ("other", "CancelledError: leaked out of the operation")
                except Exception as e:  # noqa: BLE001
                    if type(e).__name__ == "MissingResponse":
                        out = ("missing", "MissingResponse")
                    else:
                        out = ("other", f"{type(e).__name__}: {str(e)[:80]}")
                t1 = loop.time()
                det = out[1]
                if isinstance(det, (bytes, bytearray)):
                    det = bytes(det)
                elif not isinstance(det, (str, int, float, bool, type(None))):
                    det = type(det).__name__
                rec.rec("step_end", name=name, out=out[0], detail=det)
                steps.append({"name": name, "t0": t0, "t1": t1, "out": out[0], "val": out[1], "bound": bound})
                return out

            tr = None
            o, v = await step("connect", cls.connect(uri), 2.0 + 0.1)
            if o == "ok":
                tr = v
                pre = next((c for c in plan["cuts"] if c.get("pre")), None)
                if pre is not None and net.connections:
                    net.connections[0].fire_cut(Cut(dir="s2c", at=0, kind=pre["kind"], conn=0), rest=None)
                    await asyncio.sleep(pre["pre"])
                if op == "t_read":
                    o, v = await step("write", tr.write(REQ), (ack if ack else 0.0) + 0.01)
                    if o == "ok":
                        o2, v2 = await step("read", tr.read(timeout=T), T)
                        if plan.get("read_again") and (o2 == "conn" or (o2 == "ok" and v2 == b"")):
                            # the caller tries once more on the transport that has just reported the loss: that must end as well
                            # (at once or by the timeout), not wait for ever on a queue nobody feeds any more
                            ra = plan["read_again"]
                            await step("read_again", tr.read(timeout=None if ra == "none" else ra), None if ra == "none" else ra)
                elif op == "request":
                    client = UDSClient(tr, timeout=T or 1.0, max_retry=plan["max_retry"])
                    holder["client"] = client
                    o, v = await step("request", client.request(service.ReadDataByIdentifierRequest(0xF190)), None)
                    if o == "ok":
                        steps[-1]["val"] = v.pdu
                    tr = client.transport
                elif op == "wait":
                    ecu = ECU(tr, timeout=1.0, max_retry=0)
                    await step("wait", ecu.wait_for_ecu(timeout=plan["wait_timeout"]), plan["wait_timeout"] + 0.6)
                    tr = ecu.transport
                if plan.get("linger"):
                    # the caller gets round to closing a little later: a reset / EPIPE provoked by its last write has arrived by then
                    await asyncio.sleep(plan["linger"])
                await step("close1", tr.close(), 1.0)
                await step("close2", tr.close(), 1.0)
            await asyncio.sleep(0.01)
            return None

        # generous virtual cap: anything slower is "blocks forever"
        try:
            out = sim_run(main, vcap=400.0, stepcap=2_000_000)
        finally:
            if "net" in holder:
                holder["net"].uninstall()
        net: SimNet = holder["net"]
        rec: Recorder = holder["rec"]
        res["trace"] = rec.jsonable() + [["net"] + list(e) for e in net.events]
        res["vtime"] = out.vtime
        res["steps"] = out.steps
        c0 = net.connections[0] if net.connections else None
        res["note"]["bytes"] = [c0.c2s.delivered if c0 else 0, c0.s2c.delivered if c0 else 0]
        if dry:
            return res
        steps = holder.get("steps", [])
        cut = plan["cuts"][0]
        kind = cut["kind"]
        fired = [c for _, c in net.fired_cuts]
        cell = f"{scheme}:{op}:{cut['dir']}:{kind}"
        for _, c in net.fired_cuts:
            bump(res["faults"], "cut_" + c.kind)
        if plan.get("pending") and fired:
            bump(res["probes"], "cut_with_response_pending_peer")
        if plan.get("doip") and fired:
            bump(res["probes"], "cut_with_non_default_doip_tester_and_strict_gateway")
        if plan.get("ack_ms") and fired:
            bump(res["probes"], "cut_with_slow_ack_and_configured_ack_time")
        if out.kind == "exc":
            raise out.exc  # type: ignore[misc]
        if out.hung:
            last = steps[-1]["name"] if steps else "connect"
            cur = next((e[4]["name"] for e in reversed(rec.events) if e[3] == "step_begin"), "?")
            violation(res, "C08/blocks-forever", f"C08/blocks-forever:{scheme}:{cur}:{kind}:T={'none' if T is None else 'set'}",
                      f"{cur} never ended after a {kind} cut at {cut['dir']}@{cut['at']} ({out.kind}); pending: {out.pending}")
        # (1)+(2) bounded completion and outcome class per step
        cut_time = net.fired_cuts[0][0] if net.fired_cuts else None
        for s in steps:
            if s["name"] == "read_again" and s["out"] == "other" and str(s["val"]).startswith("OSError"):
                # the transport has reported the loss already and is closed: "bad file descriptor" for a further read is an error
                # in bounded time, which is all the statement asks of it
                s["out"] = "conn"
            if s["out"] == "other":
                violation(res, "C08/outcome-class", f"C08/outcome-class:{scheme}:{s['name']}:{str(s['val']).split(':')[0]}",
                          f"{s['name']} ended with {s['val']} - neither timeout, connection error, end-of-stream nor missing response ({kind} cut at {cut['dir']}@{cut['at']})")
            dur = s["t1"] - s["t0"]
            b = s["bound"]
            if s["name"] == "read_again":
                b = (b if b is not None else 0.0) + ack + SLACK + 0.05  # no timeout given: the loss is known, it must end (almost) at once
                if s["out"] == "ok" and s["val"] not in (b"", REPLY):
                    violation(res, "C08/fabricated", f"C08/fabricated:{scheme}:read_again", f"read() after the loss returned {bytes(s['val']).hex()}")
            if s["name"] == "read" and b is not None:
                b = b + SLACK
            if s["name"] == "write":
                b = ack + SLACK + 0.01
            if s["name"] == "request":
                mr = plan["max_retry"]
                per = (T or 1.0) + ack + 0.5
                b = (mr + 1) * per + sum(0.2 * 2**i for i in range(mr)) + mr * (10.5 if scheme == "doip" else 0.5) + 1.0
                if kind == "STALL":
                    b += plan.get("stall", 0.0)
                if plan.get("pending"):
                    # after responsePending the client legitimately waits for max(timeout, 20 s) of silence per attempt (C04)
                    b += (mr + 1) * (max(T or 1.0, 20.0) + 1.0)
            if b is not None and dur > b + 1e-9:
                violation(res, "C08/late", f"C08/late:{scheme}:{s['name']}:{kind}",
                          f"{s['name']} took {dur:.3f}s, bound {b:.3f}s ({kind} cut at {cut['dir']}@{cut['at']})")
            if s["name"] in ("close1", "close2") and s["out"] != "ok":
                violation(res, "C08/close", f"C08/close:{scheme}:{s['name']}:{s['out']}:{s['val']}",
                          f"{s['name']} raised {s['val']} after a {kind} cut")
        # (3) no fabricated data
        for s in steps:
            if s["name"] == "read" and s["out"] == "ok":
                v = s["val"]
                if v == b"" and scheme in ("tcp-lines", "unix-lines"):
                    continue
                if v != REPLY:
                    violation(res, "C08/fabricated", f"C08/fabricated:{scheme}:read:{'prefix' if REPLY.startswith(v) else 'other'}",
                              f"read() returned {bytes(v).hex()} but the peer's only message is {REPLY.hex()} ({kind} cut at {cut['dir']}@{cut['at']})")
            if s["name"] == "request" and s["out"] == "ok" and s["val"] != REPLY:
                violation(res, "C08/fabricated", f"C08/fabricated:{scheme}:request",
                          f"request() returned {bytes(s['val']).hex()} instead of {REPLY.hex()}")
        # STALL shorter than every timeout must be invisible
        if kind == "STALL" and plan.get("stall", 0.0) <= 0.3 and (T is None or T >= 0.5) and len(plan["cuts"]) == 1:
            for s in steps:
                if s["name"] in ("connect", "write", "read", "request") and s["out"] != "ok":
                    violation(res, "C08/stall-visible", f"C08/stall-visible:{scheme}:{s['name']}:{s['out']}",
                              f"a {plan['stall']}s stall made {s['name']} fail with {s['val']}")
                if s["name"] == "wait" and s["val"] is not True:
                    violation(res, "C08/stall-visible", f"C08/stall-visible:{scheme}:wait", "wait_for_ecu failed because of a short stall")
        # (4) recovery
        reconnects = [c for c in net.connect_log[1:]]
        all_accepted = all(m == "accept" for _, _, m in reconnects)
        half_up = [c for c in fired if c.kind == "BLACKHOLE" and scheme == "doip" and getattr(c, "conn", 0) >= 1 and c.dir == "c2s" and c.at == 0]
        detectable = all(c.kind in ("EOF", "RST") or c in half_up for c in fired) and len(fired) >= 1
        if half_up:
            bump(res["probes"], "gateway_silent_on_the_first_reconnect")
        # ... or the peer was back before the client's own back-off before a reconnect (UDSClient.retry_wait, read off the
        # client object) had elapsed: a client that keeps to that back-off finds it listening
        backoff = float(getattr(holder.get("client"), "retry_wait", 0.0) or 0.0)
        r_ = plan.get("restart")
        back_in_time = r_ is not None and len(fired) == 1 and 0.0 <= r_ < backoff - 0.02
        if back_in_time and not all_accepted:
            bump(res["probes"], "peer_back_before_the_clients_backoff_elapsed")
        # silence BEFORE the acknowledgement (the request never arrives completely) is detectable on the acknowledged
        # transports: the write fails with a connection error after the ack time, and the client reconnects like after EOF
        c0 = plan["cuts"][0]
        silent_before_ack = (scheme in ("hsfz", "doip") and len(plan["cuts"]) == 1 and len(fired) == 1 and c0["kind"] == "BLACKHOLE" and c0["dir"] == "c2s"
                             and not c0.get("pre") and ack and T is not None and T > ack + 0.3)
        if silent_before_ack and op == "request" and plan["max_retry"] >= 1 and (all_accepted or back_in_time):
            bump(res["probes"], "silence_before_the_acknowledgement")
            detectable = True
        if op == "request" and detectable and plan["max_retry"] >= len(fired) - len(half_up) and (all_accepted or back_in_time):
            s = next((s for s in steps if s["name"] == "request"), None)
            if s is not None and (s["out"] != "ok" or s["val"] != REPLY):
                phase = "before-cut" if cut_time is None else ("request-in-flight" if s["t0"] <= cut_time <= s["t1"] else "cut-before-request")
                violation(res, "C08/recovery", f"C08/recovery:{scheme}:request:{kind}:{cut['dir']}:{phase}:got={s['out']}:{s['val'] if s['out'] != 'ok' else 'wrong'}",
                          f"request with max_retry={plan['max_retry']} ended with {s['out']} {s['val']} although the peer accepted every reconnect ({len(reconnects)} attempts); {kind} cut at {cut['dir']}@{cut['at']}")
        if op == "wait" and detectable and all_accepted and len(fired) == 1:
            s = next((s for s in steps if s["name"] == "wait"), None)
            if s is not None and s["out"] == "ok" and s["val"] is not True:
                violation(res, "C08/recovery", f"C08/recovery:{scheme}:wait:{kind}:{cut['dir']}",
                          f"wait_for_ecu({plan['wait_timeout']}) gave up although the peer accepted every reconnect attempt ({len(reconnects)} attempts)")
            if s is not None and s["out"] != "ok":
                violation(res, "C08/outcome-class", f"C08/wait-raised:{scheme}:{s['out']}:{s['val']}", f"wait_for_ecu raised {s['val']}")
        # accepted connections: one per successful reconnect
        outs = ",".join(f"{s['name']}={s['out']}" for s in steps)
        in_flight = bool(fired)
        res["shape"] = f"{cell}{'+pending' if plan.get('pending') else ''}@{cut['at']}|{outs}|restart={plan.get('restart')}|mr={plan['max_retry']}|T={T}|cuts={len(fired)}"
        res["nontrivial"] = in_flight
        return res


def make() -> Check:
    return C08()
