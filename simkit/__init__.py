"""simkit - a small deterministic simulation kernel for asyncio programs.

Everything gallia touches that is nondeterministic (scheduling instants, clocks,
byte streams, storage workers, consumer threads, Ctrl-C) is owned by the
objects in this package.  See /verif/DESIGN.md section 3.
"""

import os
import sys


def gallia_src() -> str:
    """Directory the gallia package is imported from (GALLIA_SRC overrides /repo/src)."""
    return os.environ.get("GALLIA_SRC") or "/repo/src"


def use_repo_tree() -> None:
    """Make sure `import gallia` resolves to the working tree under test."""
    src = gallia_src()
    if sys.path[0] != src:
        try:
            sys.path.remove(src)
        except ValueError:
            pass
        sys.path.insert(0, src)
    mod = sys.modules.get("gallia")
    if mod is not None:
        path = getattr(mod, "__file__", "") or ""
        if not path.startswith(src):
            raise RuntimeError(f"gallia already imported from {path}, expected {src}")
