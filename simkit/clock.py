"""Wall-clock seams: everything reads `epoch + loop.time()`."""

from __future__ import annotations

import datetime as _dt
import time as _time
from typing import Any, Callable

EPOCH = 1_750_000_000.0


def make_datetime(clock: Callable[[], float]) -> type:
    class SimDateTime(_dt.datetime):
        @classmethod
        def now(cls, tz: Any = None) -> _dt.datetime:  # type: ignore[override]
            return _dt.datetime.fromtimestamp(clock(), tz)

    return SimDateTime


class TimeShim:
    """Replacement for the `time` module object as seen by `logging`."""

    def __init__(self, clock: Callable[[], float]) -> None:
        self._clock = clock

    def time(self) -> float:
        return self._clock()

    def time_ns(self) -> int:
        return int(self._clock() * 1e9)

    def __getattr__(self, name: str) -> Any:
        return getattr(_time, name)
