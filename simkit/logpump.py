"""SteppedQueueListener: logging's QueueListener without its thread.

The simulator decides when the consumer processes queued records (`pump`); `stop()` drains
exactly what a real `stop()` (sentinel + join) would have processed.
"""

from __future__ import annotations

import queue
from logging.handlers import QueueListener
from typing import Any


class Pumps:
    """Registry of the listeners created during one run."""

    def __init__(self) -> None:
        self.listeners: list["SteppedQueueListener"] = []
        self.mode = "eager"  # eager | manual
        self.handled = 0
        self.drained_at_stop = 0

    def make_class(self) -> type:
        pumps = self

        class Bound(SteppedQueueListener):
            _pumps = pumps

        return Bound

    def pump_all(self, n: int | None = None) -> int:
        done = 0
        for lst in list(self.listeners):
            done += lst.pump(n)
        return done

    def backlog(self) -> int:
        return sum(lst.queue.qsize() for lst in self.listeners if lst._thread is not None)


class SteppedQueueListener(QueueListener):
    _pumps: Pumps

    def start(self) -> None:
        self._thread = object()  # type: ignore[assignment]
        self._pumps.listeners.append(self)

    def pump(self, n: int | None = None) -> int:
        if self._thread is None:
            return 0
        done = 0
        while n is None or done < n:
            try:
                record = self.dequeue(False)
            except queue.Empty:
                break
            self.handle(record)
            done += 1
        self._pumps.handled += done
        return done

    def stop(self) -> None:
        if self._thread is None:
            return
        n = self.pump(None)
        self._pumps.drained_at_stop += n
        self._thread = None
        if self in self._pumps.listeners:
            self._pumps.listeners.remove(self)

    def enqueue_sentinel(self) -> None:  # pragma: no cover - not used without a thread
        pass
