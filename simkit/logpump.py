"""SteppedQueueListener: logging's QueueListener without its thread.

The simulator decides when the consumer processes queued records (`pump`).  The object in
`_thread` behaves like the consumer thread as far as callers can tell: `join()` lets the
consumer run to the sentinel, `join(timeout)` lets it run for `timeout` seconds at the
consumer's configured speed, a handler that raises kills it (records queued or logged
afterwards are never written), exactly like `QueueListener._monitor`.
"""

from __future__ import annotations

import queue
from logging.handlers import QueueListener
from typing import Any


class Pumps:
    """Registry of the listeners created during one run."""

    def __init__(self) -> None:
        self.listeners: list["SteppedQueueListener"] = []
        self.handled = 0
        self.drained_at_stop = 0
        self.died: list[str] = []
        # records per second the consumer manages (None = keeps up with anything, 0 = stalled)
        self.rate: float | None = None

    def make_class(self) -> type:
        pumps = self

        class Bound(SteppedQueueListener):
            _pumps = pumps

        return Bound

    def pump_all(self, n: int | None = None) -> int:
        done = 0
        for lst in list(self.listeners):
            done += lst.pump(n)
        return done

    def backlog(self) -> int:
        return sum(lst.queue.qsize() for lst in self.listeners if lst._thread is not None)


class _ConsumerThread:
    """Stand-in for the threading.Thread of QueueListener."""

    def __init__(self, listener: "SteppedQueueListener") -> None:
        self.listener = listener
        self.name = "SteppedQueueListener"
        self.daemon = True

    def is_alive(self) -> bool:
        return not self.listener.exited and self.listener.dead is None

    def join(self, timeout: float | None = None) -> None:
        lst = self.listener
        if timeout is None:
            n = lst.pump(None)
        else:
            rate = lst._pumps.rate
            budget = None if rate is None else int(rate * timeout)
            n = lst.pump(budget)
        lst._pumps.drained_at_stop += n


class SteppedQueueListener(QueueListener):
    _pumps: Pumps
    dead: BaseException | None = None
    exited = False

    def start(self) -> None:
        self._thread = _ConsumerThread(self)  # type: ignore[assignment]
        self._pumps.listeners.append(self)

    def pump(self, n: int | None = None) -> int:
        if self._thread is None or self.dead is not None or self.exited:
            return 0
        done = 0
        while n is None or done < n:
            try:
                record = self.dequeue(False)
            except queue.Empty:
                break
            if record is self._sentinel:
                self.exited = True
                break
            try:
                self.handle(record)
            except Exception as e:  # noqa: BLE001
                # QueueListener._monitor has no handler around handle(): the consumer thread dies here,
                # everything still queued (and everything logged later) is never written
                self.dead = e
                self._pumps.died.append(repr(e))
                break
            done += 1
        self._pumps.handled += done
        return done

    def stop(self) -> None:
        # same steps as QueueListener.stop(): sentinel, join, forget the thread
        if self._thread is None:
            return
        self.enqueue_sentinel()
        self._thread.join()
        self._thread = None
        if self in self._pumps.listeners:
            self._pumps.listeners.remove(self)
