"""World C/D: everything a gallia command touches, simulated.

SimNet for streams, SimSqlite for aiosqlite, stepped log consumer, virtual wall clock for
datetime/logging/vECU, real files under a private temp dir.
"""

from __future__ import annotations

import asyncio
import logging
import os
import shutil
import signal
import tempfile
from typing import Any, Callable

import simkit

simkit.use_repo_tree()

import gallia.command.base as cmd_base  # noqa: E402
import gallia.db.handler as db_handler  # noqa: E402
import gallia.log as glog  # noqa: E402
import gallia.plugins.plugin as gplugin  # noqa: E402
import gallia.services.uds.ecu as ecu_mod  # noqa: E402
import gallia.services.uds.server as server_mod  # noqa: E402
from gallia.transports import TargetURI  # noqa: E402

from simkit.clock import EPOCH, TimeShim, make_datetime  # noqa: E402
from simkit.logpump import Pumps  # noqa: E402
from simkit.loop import HarnessError, SimLoop, SimSpin, SimStop, describe_pending, spin_count  # noqa: E402
from simkit.net import SimNet  # noqa: E402
from simkit.sqlite import SimSqlite  # noqa: E402
from simkit.world import Recorder, Seams, seed_unseeded_rng  # noqa: E402

_PLUGINS_CACHE: list[Any] | None = None
_REAL_LOAD_PLUGINS = gplugin.load_plugins


def _cached_plugins() -> list[Any]:
    global _PLUGINS_CACHE
    if _PLUGINS_CACHE is None:
        _PLUGINS_CACHE = _REAL_LOAD_PLUGINS()
    return list(_PLUGINS_CACHE)


class _QuietTraceback:
    """gallia's server loop prints tracebacks to stderr; record them instead."""

    def __init__(self, world: "CmdWorld") -> None:
        self.world = world

    def print_exc(self, *a: Any, **kw: Any) -> None:
        import sys as _sys

        e = _sys.exc_info()[1]
        self.world.server_errors.append(repr(e))

    def __getattr__(self, name: str) -> Any:
        import traceback as _tb

        return getattr(_tb, name)


class CmdWorld:
    def __init__(self, seed: int = 0, epoch: float = EPOCH, log_level: int = 5) -> None:
        self.loop = SimLoop()
        self.seed = seed
        self.epoch = epoch
        self.net = SimNet(self.loop, seed)
        self.sql = SimSqlite()
        self.pumps = Pumps()
        self.rec = Recorder(self.loop)
        self.seams = Seams()
        self.tmp = tempfile.mkdtemp(prefix="gsim-")
        self.log_level = log_level
        self.records: list[logging.LogRecord] = []
        self._capture: logging.Handler | None = None
        self.vecu_tasks: list[asyncio.Task[Any]] = []
        self.server_errors: list[str] = []
        self.pump_timer: Any = None
        self._old_sigint: Any = None

    def wall(self) -> float:
        return self.epoch + self.loop.time()

    # -- seams ---------------------------------------------------------------------------------
    def install(self, capture: Callable[[logging.LogRecord], bool] | None = None) -> None:
        self._is_installed = True
        self.net.install()
        s = self.seams
        s.set(db_handler, "aiosqlite", self.sql)
        s.set(server_mod, "aiosqlite", self.sql)
        s.set(server_mod, "time", self.wall)
        dt = make_datetime(self.wall)
        s.set(ecu_mod, "datetime", dt)
        s.set(cmd_base, "datetime", dt)
        s.set(glog, "QueueListener", self.pumps.make_class())
        s.set(logging, "time", TimeShim(self.wall))
        s.set(gplugin, "load_plugins", _cached_plugins)
        seed_unseeded_rng(s, self.seed)
        s.set(server_mod, "traceback", _QuietTraceback(self))
        lg = logging.getLogger("gallia")
        self._old_handlers = lg.handlers[:]
        self._old_level = lg.level
        self._old_prop = lg.propagate
        lg.handlers[:] = [logging.NullHandler()]
        lg.setLevel(self.log_level)
        lg.propagate = False
        if capture is not None:
            world = self

            class Cap(logging.Handler):
                def emit(self, record: logging.LogRecord) -> None:
                    if capture(record):
                        world.records.append(record)

            self._capture = Cap(level=1)
            lg.addHandler(self._capture)
        asyncio.set_event_loop(self.loop)

    def uninstall(self) -> None:
        if not getattr(self, "_is_installed", False):
            self.sql.close_all()
            return
        self._is_installed = False
        lg = logging.getLogger("gallia")
        # close leaked zstd handlers so that files are not kept open across runs
        for h in lg.handlers[:]:
            if h not in self._old_handlers and not isinstance(h, logging.NullHandler):
                try:
                    lg.removeHandler(h)
                except Exception:  # noqa: BLE001
                    pass
        lg.handlers[:] = self._old_handlers
        lg.setLevel(self._old_level)
        lg.propagate = self._old_prop
        self.seams.restore()
        self.net.uninstall()
        self.sql.close_all()

    def destroy(self) -> None:
        shutil.rmtree(self.tmp, ignore_errors=True)

    # -- helpers ---------------------------------------------------------------------------------
    async def start_vecu(self, server: Any, uri: str = "tcp://sim:1") -> Any:
        """Run gallia's real server transport for `server` on the simulated network."""
        target = TargetURI(uri)
        if target.scheme.value == "tcp":
            tr = server_mod.TCPUDSServerTransport(server, target)
        else:
            tr = server_mod.UnixUDSServerTransport(server, target)
        await server.setup()
        task = self.loop.create_task(tr.run())
        self.vecu_tasks.append(task)
        await asyncio.sleep(0)
        return tr

    def start_pump(self, interval: float, batch: int | None) -> None:
        """Consumer lag model: every `interval` seconds process at most `batch` queued records."""

        self.pumps.rate = None if batch is None else batch / interval

        def tick() -> None:
            self.pumps.pump_all(batch)
            self.pump_timer = self.loop.call_later(interval, tick)

        self.pump_timer = self.loop.call_later(interval, tick)

    def sigint_at(self, t: float, fired: list[float] | None = None) -> None:
        def fire() -> None:
            if fired is not None:
                fired.append(self.loop.time())
            self.rec.rec("SIGINT")
            handler = signal.getsignal(signal.SIGINT)
            if not callable(handler):
                # SIG_IGN / SIG_DFL: the simulated Ctrl-C would silently do nothing (harness error, never a verdict)
                raise HarnessError(f"simulated Ctrl-C: SIGINT disposition is {handler!r}, no Python-level handler installed")
            handler(signal.SIGINT, None)

        self.loop.call_at(t, fire)

    def run_cli(self, coro_factory: Callable[[], Any], vcap: float = 600.0, stepcap: int = 2_000_000) -> dict[str, Any]:
        """Run a command the way `sys.exit(asyncio.run(cmd.entry_point()))` does and derive the
        process exit code the way the interpreter would."""
        loop = self.loop
        loop.vcap = vcap
        loop.stepcap = stepcap
        out: dict[str, Any] = {"kind": "return", "exit": None, "exc": None, "pending": []}
        runner = asyncio.Runner(loop_factory=lambda: loop)
        spins0 = spin_count()
        try:
            try:
                rv = runner.run(coro_factory())
                out["exit"] = rv if isinstance(rv, int) else (0 if rv is None else 1)
                out["value"] = rv
            except KeyboardInterrupt:
                out["kind"] = "KeyboardInterrupt"
                out["exit"] = 130
            except SystemExit as e:
                out["kind"] = "SystemExit"
                out["exit"] = e.code if isinstance(e.code, int) else (0 if e.code is None else 1)
            except SimStop as e:
                out["kind"] = "hung"
                out["exc"] = e
                out["pending"] = describe_pending(loop)
            except asyncio.CancelledError as e:
                out["kind"] = "CancelledError"
                out["exit"] = 1
                out["exc"] = e
            except Exception as e:  # noqa: BLE001
                out["kind"] = "exception"
                out["exit"] = 1
                out["exc"] = e
        finally:
            if spin_count() > spins0 and out["kind"] != "hung":
                out["kind"] = "hung"
                out["exc"] = SimSpin("a loop callback did not return (interrupted by the watchdog)")
                out["pending"] = ["<a task span inside one callback>"]
            out["vtime"] = loop.time()
            out["steps"] = loop.steps
            out["unhandled"] = list(loop.unhandled)
            if self.pump_timer is not None:
                self.pump_timer.cancel()
            loop.vcap = None
            loop.stepcap = loop.steps + 50000
            try:
                runner.close()
            except BaseException:  # noqa: BLE001
                try:
                    loop.set_exception_handler(lambda l, c: None)
                    loop.close()
                except BaseException:  # noqa: BLE001
                    pass
            asyncio.set_event_loop(None)
        return out
