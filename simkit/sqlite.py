"""SimSqlite: aiosqlite's awaitable API on top of the real sqlite3 engine, without the worker thread.

Like aiosqlite, operations are executed strictly in submission order by a single "worker";
each one completes after a seeded simulated latency.  An operation that was submitted is
executed even if the awaiting task is cancelled meanwhile (its result is dropped), exactly
as with the real thread proxy.
"""

from __future__ import annotations

import asyncio
import sqlite3
from typing import Any, Callable

OperationalError = sqlite3.OperationalError
Error = sqlite3.Error
TICK = 1e-7
_BUSY = __import__("re").compile(r"PRAGMA\s+busy_timeout\s*=\s*(\d+)", __import__("re").I)
_WRITE = __import__("re").compile(r"\s*(INSERT|UPDATE|DELETE|REPLACE)\b", __import__("re").I)


class Cursor:
    def __init__(self, conn: "Connection", cur: sqlite3.Cursor) -> None:
        self._conn = conn
        self._cur = cur

    @property
    def lastrowid(self) -> int | None:
        return self._cur.lastrowid

    @property
    def rowcount(self) -> int:
        return self._cur.rowcount

    async def fetchone(self) -> Any:
        return await self._conn._submit("fetchone", self._cur.fetchone)

    async def fetchall(self) -> Any:
        return await self._conn._submit("fetchall", self._cur.fetchall)

    async def close(self) -> None:
        await self._conn._submit("cursor_close", self._cur.close)


class Connection:
    def __init__(self, sim: "SimSqlite", path: Any) -> None:
        self.sim = sim
        self.path = str(path)
        self._db: sqlite3.Connection | None = None
        self._last = 0.0
        self._q: Any = __import__("collections").deque()
        self._working = False
        self.busy_timeout = 0.0  # seconds; sqlite's default is "fail at once"
        self.index = len(sim.connections)
        sim.connections.append(self)

    def __await__(self) -> Any:
        return self._open().__await__()

    async def _open(self) -> "Connection":
        def op() -> None:
            self._db = sqlite3.connect(self.path)

        await self._submit("open", op, need_open=False)
        return self

    def _submit(self, name: str, fn: Callable[[], Any], need_open: bool = True, write_sql: str | None = None) -> "asyncio.Future[Any]":
        loop = asyncio.get_running_loop()
        fut: asyncio.Future[Any] = loop.create_future()
        lat = self.sim.latency(self, name)
        t = max(loop.time() + lat, self._last + TICK)
        self._last = t
        self.sim.submitted += 1

        def run() -> None:
            self.sim.executed += 1
            try:
                if need_open and self._db is None:
                    raise ValueError("no active connection")
                res = fn()
            except Exception as e:  # noqa: BLE001
                if self.sim.on_op is not None:
                    self.sim.on_op(self, name, repr(e))
                if not fut.done():
                    fut.set_exception(e)
                return
            if self.sim.on_op is not None:
                self.sim.on_op(self, name, None)
            if not fut.done():
                fut.set_result(res)
            else:
                self.sim.orphaned += 1

        def fail_locked() -> None:
            self.sim.executed += 1
            self.sim.lock_errors += 1
            e = OperationalError("database is locked")
            if self.sim.on_op is not None:
                self.sim.on_op(self, name, repr(e))
            if not fut.done():
                fut.set_exception(e)

        # strictly FIFO single worker: the head of the queue runs at its due time; a write statement that finds the database
        # locked by ANOTHER process (sim.lock_windows / sim.lock_triggers) waits like sqlite's busy handler - up to this
        # connection's `PRAGMA busy_timeout` - and fails with "database is locked" if the lock outlasts it
        self._q.append([t, run, fail_locked, write_sql, False])
        if not self._working:
            self._working = True
            loop.call_at(t, self._work)
        return fut

    def _work(self) -> None:
        loop = asyncio.get_running_loop()
        now = loop.time()
        while self._q:
            t, run, fail_locked, write_sql, waited = self._q[0]
            if t > now + 1e-12:
                loop.call_at(t, self._work)
                return
            if write_sql is not None and not waited:
                end = self.sim.lock_end(now, write_sql)
                if end is not None:
                    self._q[0][4] = True
                    if end - now <= self.busy_timeout + 1e-12:
                        self.sim.lock_waits += 1
                        self._q[0][0] = end + TICK
                    else:
                        self._q[0][0] = now + self.busy_timeout
                        self._q[0][1] = fail_locked
                    self._shift_after(self._q[0][0])
                    loop.call_at(self._q[0][0], self._work)
                    return
            self._q.popleft()
            run()
        self._working = False

    def _shift_after(self, t0: float) -> None:
        # nothing overtakes the statement that is waiting for the lock
        t = t0
        for e in list(self._q)[1:]:
            t = max(e[0], t + TICK)
            e[0] = t
        self._last = max(self._last, t)

    async def execute(self, sql: str, parameters: Any = None) -> Cursor:
        params = tuple(parameters) if parameters is not None else ()

        def op() -> Cursor:
            assert self._db is not None
            if self.sim.fault is not None:
                err = self.sim.fault(self, sql)
                if err is not None:
                    raise err
            m = _BUSY.search(sql)
            if m:
                self.busy_timeout = int(m.group(1)) / 1000.0
            return Cursor(self, self._db.execute(sql, params))

        return await self._submit("execute", op, write_sql=sql if _WRITE.match(sql) else None)

    async def executescript(self, sql: str) -> Cursor:
        def op() -> Cursor:
            assert self._db is not None
            return Cursor(self, self._db.executescript(sql))

        m = _BUSY.search(sql)
        if m:
            self.busy_timeout = int(m.group(1)) / 1000.0
        return await self._submit("executescript", op)

    async def commit(self) -> None:
        def op() -> None:
            assert self._db is not None
            if self.sim.fault is not None:
                err = self.sim.fault(self, "COMMIT")
                if err is not None:
                    raise err
            self._db.commit()

        await self._submit("commit", op)

    async def rollback(self) -> None:
        def op() -> None:
            assert self._db is not None
            self._db.rollback()

        await self._submit("rollback", op)

    async def close(self) -> None:
        def op() -> None:
            if self._db is not None:
                self._db.close()
                self._db = None

        await self._submit("close", op, need_open=False)

    def hard_close(self) -> None:
        """Process death: the OS closes the file; uncommitted work is lost."""
        if self._db is not None:
            try:
                self._db.close()
            except Exception:  # noqa: BLE001
                pass
            self._db = None


class SimSqlite:
    """Stand-in for the `aiosqlite` module object."""

    OperationalError = OperationalError
    Error = Error
    Cursor = Cursor
    Connection = Connection

    def __init__(self, latency: Callable[[Connection, str], float] | None = None) -> None:
        self.latency: Callable[[Connection, str], float] = latency or (lambda c, n: 0.0002)
        self.connections: list[Connection] = []
        self.on_op: Callable[[Connection, str, str | None], None] | None = None
        # fault injection: return an exception to raise instead of executing the statement (e.g. "database is locked")
        self.fault: Callable[[Connection, str], Exception | None] | None = None
        self.submitted = 0
        self.executed = 0
        self.orphaned = 0
        # another process holding the write lock: absolute windows [(from, to)] in loop time, and triggers
        # {"prefix": sql prefix, "dur": seconds, "fired": False} that take the lock the moment such a statement is about to run
        self.lock_windows: list[tuple[float, float]] = []
        self.lock_triggers: list[dict[str, Any]] = []
        self.lock_waits = 0
        self.lock_errors = 0

    def lock_end(self, now: float, sql: str) -> float | None:
        for tr in self.lock_triggers:
            if not tr.get("fired") and sql.lstrip().upper().startswith(tr["prefix"].upper()):
                tr["fired"] = True
                self.lock_windows.append((now, now + tr["dur"]))
        ends = [b for a, b in self.lock_windows if a - 1e-12 <= now < b]
        return max(ends) if ends else None

    def connect(self, path: Any, **kw: Any) -> Connection:
        return Connection(self, path)

    def close_all(self) -> None:
        for c in self.connections:
            c.hard_close()
