"""Virtual-time asyncio event loop.

`SimLoop` is asyncio's own `BaseEventLoop` (ready queue, timer heap, Task, Lock,
Queue, timeout ... all real) with the OS selector replaced by an object that
advances a virtual clock to the next timer.  When nothing is runnable and no
timer is pending every task is blocked forever: that is reported as
`SimDeadlock` instead of hanging.
"""

from __future__ import annotations

import asyncio
import contextvars
import os
import signal
import threading
import time as _time
from dataclasses import dataclass, field
from typing import Any, Callable, Coroutine


class SimStop(BaseException):
    """Base of the simulator's own control-flow exceptions (never caught by `except Exception`)."""


class SimDeadlock(SimStop):
    """No runnable task and no timer left: every remaining task blocks forever."""


class SimTimeCap(SimStop):
    """Virtual-time cap of the run exceeded."""


class SimStepCap(SimStop):
    """Step cap of the run exceeded."""


class SimSpin(SimStop):
    """One loop callback ran for SPIN_WALL_S seconds of wall time without returning to the loop."""


class HarnessError(Exception):
    """The simulator itself was used in a way that breaks determinism."""


# --------------------------------------------------------------------------- spin watchdog
# Virtual time, step caps and deadlock detection all need the loop to get control back.  Code that spins inside a single
# callback (a `while True` that never awaits) defeats them; only wall time can tell.  A daemon thread watches a heartbeat
# that every loop iteration bumps; if a running loop shows no heartbeat for SPIN_WALL_S it raises SimSpin in the main
# thread.  It decides nothing about runs that make progress: such runs never see it.
SPIN_WALL_S = float(os.environ.get("VERIF_SPIN_S") or 20.0)
_wd: dict[str, Any] = {"pid": None, "beat": 0, "armed": 0}


def _spin_handler(signum: int, frame: Any) -> None:
    if _wd["armed"] > 0:
        _wd["fired"] = _wd.get("fired", 0) + 1
        raise SimSpin(f"a loop callback did not return within {SPIN_WALL_S:.0f} s of wall time")


def _watchdog_thread(main_ident: int) -> None:
    last, since = -1, _time.monotonic()
    while True:
        _time.sleep(min(2.0, SPIN_WALL_S / 4))
        if _wd["armed"] <= 0 or _wd["beat"] != last:
            last, since = _wd["beat"], _time.monotonic()
            continue
        if _time.monotonic() - since > SPIN_WALL_S:
            since = _time.monotonic()
            try:
                signal.pthread_kill(main_ident, signal.SIGUSR2)
            except Exception:  # noqa: BLE001
                return


def spin_count() -> int:
    return int(_wd.get("fired", 0))


def _ensure_watchdog() -> None:
    if _wd["pid"] == os.getpid() or threading.current_thread() is not threading.main_thread():
        return
    _wd["pid"] = os.getpid()
    _wd["armed"] = 0
    signal.signal(signal.SIGUSR2, _spin_handler)
    threading.Thread(target=_watchdog_thread, args=(threading.main_thread().ident,), daemon=True, name="sim-spin-watchdog").start()


class _Selector:
    def __init__(self, loop: "SimLoop") -> None:
        self.loop = loop

    def select(self, timeout: float | None) -> list[Any]:
        loop = self.loop
        if timeout is None:
            raise SimDeadlock("no runnable task and no timer")
        if timeout > 0:
            loop.idle_jumps += 1
            if loop.vcap is not None and loop._vt + timeout > loop.vcap:
                loop._vt = loop.vcap
                raise SimTimeCap(f"virtual time cap {loop.vcap}s exceeded")
            loop._vt += timeout
            # snap to the timer we are jumping to (float sums drift by an ulp otherwise)
            sched = loop._scheduled
            if sched and abs(sched[0]._when - loop._vt) < 1e-9:
                loop._vt = sched[0]._when
        return []

    def close(self) -> None:
        pass


class SimLoop(asyncio.BaseEventLoop):
    def __init__(self) -> None:
        super().__init__()
        self._vt = 0.0
        self._selector = _Selector(self)
        self._clock_resolution = 1e-9
        self.vcap: float | None = None
        self.stepcap: int | None = None
        self.steps = 0
        self.executor_delay: Callable[[], float] = lambda: 0.0
        self.unhandled: list[dict[str, Any]] = []
        self.set_exception_handler(self._on_unhandled)
        # strong references to tasks created by the simulator's helpers
        self.keep: list[Any] = []
        # fault "slow node": with probability stall_p an iteration costs stall_dt() seconds of virtual time (a callback
        # that kept the CPU), so timers become due late and several of them in one iteration; off unless a check sets it
        self.stall_p = 0.0
        self.stall_rng: Any = None
        self.stall_dt: Callable[[], float] = lambda: 0.0
        self.stalls = 0
        self.idle_jumps = 0

    # -- clock / selector ---------------------------------------------------------------
    def time(self) -> float:
        return self._vt

    def _process_events(self, event_list: Any) -> None:
        pass

    def _write_to_self(self) -> None:
        pass

    def _run_once(self) -> None:
        self.steps += 1
        _wd["beat"] += 1
        if self.stepcap is not None and self.steps > self.stepcap:
            raise SimStepCap(f"step cap {self.stepcap} exceeded")
        if self.stall_p and self.stall_rng is not None and self.stall_rng.random() < self.stall_p:
            self._vt += self.stall_dt()
            self.stalls += 1
        super()._run_once()  # type: ignore[misc]

    def run_forever(self) -> None:
        _ensure_watchdog()
        _wd["armed"] += 1
        _wd["beat"] += 1
        try:
            super().run_forever()
        finally:
            _wd["armed"] -= 1

    # -- threads are not allowed to exist -------------------------------------------
    def run_in_executor(self, executor: Any, func: Callable[..., Any], *args: Any) -> Any:
        fut = self.create_future()
        ctx = contextvars.copy_context()

        def _run() -> None:
            if fut.cancelled():
                return
            try:
                res = ctx.run(func, *args)
            except BaseException as e:  # noqa: BLE001
                if isinstance(e, SimStop):
                    raise
                fut.set_exception(e)
            else:
                fut.set_result(res)

        self.call_later(self.executor_delay(), _run)
        return fut

    def call_soon_threadsafe(self, callback: Any, *args: Any, context: Any = None) -> Any:
        # Only the loop thread exists in a simulation.
        return self.call_soon(callback, *args, context=context)

    async def shutdown_default_executor(self, timeout: float | None = None) -> None:
        return None

    def _on_unhandled(self, loop: Any, context: dict[str, Any]) -> None:
        exc = context.get("exception")
        self.unhandled.append(
            {
                "message": str(context.get("message")),
                "exception": repr(exc) if exc is not None else None,
            }
        )


@dataclass
class Outcome:
    kind: str  # ok | exc | deadlock | timecap | stepcap
    value: Any = None
    exc: BaseException | None = None
    vtime: float = 0.0
    steps: int = 0
    pending: list[str] = field(default_factory=list)
    unhandled: list[dict[str, Any]] = field(default_factory=list)

    @property
    def hung(self) -> bool:
        return self.kind in ("deadlock", "timecap", "stepcap", "spin")


def _await_chain(coro: Any) -> list[str]:
    """Names of the coroutines a suspended task is parked in, outermost first."""
    names = []
    seen = 0
    while coro is not None and seen < 30:
        seen += 1
        code = getattr(coro, "cr_code", None) or getattr(coro, "gi_code", None) or getattr(coro, "ag_code", None)
        frame = getattr(coro, "cr_frame", None) or getattr(coro, "gi_frame", None) or getattr(coro, "ag_frame", None)
        if code is not None:
            names.append(f"{code.co_name}:{frame.f_lineno}" if frame is not None else code.co_name)
        nxt = getattr(coro, "cr_await", None)
        if nxt is None:
            nxt = getattr(coro, "gi_yieldfrom", None)
        if nxt is None:
            nxt = getattr(coro, "ag_await", None)
        if nxt is None or nxt is coro:
            break
        coro = nxt
    else:
        pass
    if coro is not None and not (hasattr(coro, "cr_code") or hasattr(coro, "gi_code")):
        names.append(type(coro).__name__)
    return names


def describe_pending(loop: SimLoop) -> list[str]:
    out = []
    for t in asyncio.all_tasks(loop):
        if t.done():
            continue
        coro = t.get_coro()
        name = getattr(coro, "__qualname__", type(coro).__name__)
        chain = _await_chain(coro)
        out.append(f"{name} parked in {' > '.join(chain[-6:])}")
    return sorted(out)


def _cleanup(loop: SimLoop) -> None:
    """Cancel whatever is left and close the loop; never raises, never hangs."""
    loop.vcap = None
    loop.stepcap = loop.steps + 20000
    try:
        for _ in range(5):
            tasks = [t for t in asyncio.all_tasks(loop) if not t.done()]
            if not tasks:
                break
            for t in tasks:
                t.cancel()
            try:
                loop.run_until_complete(asyncio.gather(*tasks, return_exceptions=True))
            except SimStop:
                break
            except BaseException:  # noqa: BLE001
                break
        try:
            loop.run_until_complete(loop.shutdown_asyncgens())
        except BaseException:  # noqa: BLE001
            pass
    finally:
        loop.set_exception_handler(lambda l, c: None)
        asyncio.set_event_loop(None)
        try:
            loop.close()
        except BaseException:  # noqa: BLE001
            pass


def sim_run(
    main: Callable[[SimLoop], Coroutine[Any, Any, Any]],
    *,
    vcap: float | None = 3600.0,
    stepcap: int | None = 2_000_000,
    on_stuck: Callable[[SimLoop, Outcome], None] | None = None,
) -> Outcome:
    """Run `main(loop)` to completion on a fresh `SimLoop`.

    The outcome says whether the coroutine returned, raised, or whether the simulation
    detected that it can never finish (deadlock / virtual-time cap / step cap).
    `on_stuck` is called with the intact loop before clean-up so oracles can look at it.
    """
    loop = SimLoop()
    loop.vcap = vcap
    loop.stepcap = stepcap
    asyncio.set_event_loop(loop)
    out: Outcome
    spins0 = spin_count()
    try:
        try:
            task = loop.create_task(main(loop))
            loop.run_until_complete(task)
            out = Outcome("ok", value=task.result())
        except SimDeadlock as e:
            out = Outcome("deadlock", exc=e, pending=describe_pending(loop))
        except SimTimeCap as e:
            out = Outcome("timecap", exc=e, pending=describe_pending(loop))
        except SimStepCap as e:
            out = Outcome("stepcap", exc=e, pending=describe_pending(loop))
        except SimSpin as e:
            out = Outcome("spin", exc=e, pending=describe_pending(loop))
        except BaseException as e:  # noqa: BLE001
            out = Outcome("exc", exc=e)
        if spin_count() > spins0 and out.kind != "spin":
            # the watchdog interrupted a task other than the main one (asyncio stores the exception in that task)
            out = Outcome("spin", exc=SimSpin("a loop callback did not return (interrupted by the watchdog)"), pending=describe_pending(loop))
        out.vtime = loop.time()
        out.steps = loop.steps
        if out.hung and on_stuck is not None:
            on_stuck(loop, out)
    finally:
        _cleanup(loop)
    out.unhandled = list(loop.unhandled)
    bad = [u for u in out.unhandled if u["message"].startswith("Exception in callback")]
    if bad:
        raise HarnessError(f"exception inside a loop callback: {bad[0]}")
    return out
