"""Simulated stream network.

Connections are made of asyncio's *real* StreamReader / StreamReaderProtocol /
StreamWriter on top of `SimStreamTransport`, a `asyncio.Transport` whose bytes
travel through a `Pipe` owned by the simulator: per-write latency, segmentation,
coalescing, cuts (EOF / RST / black hole / stall), listener states.
FIFO per direction is always preserved (TCP semantics).
"""

from __future__ import annotations

import asyncio
import random
from dataclasses import dataclass, field
from typing import Any, Awaitable, Callable

from simkit.loop import SimLoop

TICK = 1e-7  # minimal spacing between two deliveries of one direction (keeps FIFO in the timer heap)


@dataclass
class Policy:
    """Delivery policy of one direction.  Every residual random choice comes from `seed`."""

    seed: int = 0
    lat_min: float = 0.0002
    lat_max: float = 0.002
    # segmentation: "whole" | "bytes" | "random" | ("split", [absolute stream offsets])
    segment: Any = "whole"
    max_parts: int = 4
    coalesce: float = 0.0  # probability that a write joins the previous undelivered segment
    # per-segment extra gap (makes segments of one write arrive clearly apart)
    seg_gap_min: float = 0.0
    seg_gap_max: float = 0.0
    # latency spikes: with probability spike_p a write is delayed by an extra uniform(spike_min, spike_max) seconds (FIFO is kept,
    # so what follows waits behind it); drawn from a stream of its own so that spike_p = 0 changes nothing
    spike_p: float = 0.0
    spike_min: float = 0.0
    spike_max: float = 0.0

    def make_rng(self) -> random.Random:
        return random.Random(self.seed)


@dataclass
class Cut:
    """Connection fault: fires when `at` bytes have been *delivered* in direction `dir`
    ("c2s" or "s2c") of connection number `conn` (0 = first accepted connection)."""

    dir: str
    at: int
    kind: str  # EOF | RST | BLACKHOLE | STALL
    conn: int = 0
    stall: float = 0.0
    fired: bool = False


class SimStreamTransport(asyncio.Transport):
    def __init__(self, loop: SimLoop, conn: "Connection", side: str) -> None:
        super().__init__()
        self.loop = loop
        self.conn = conn
        self.side = side  # "c" or "s"
        self.protocol: Any = None
        self._closing = False
        self._lost = False
        self._eof_written = False
        self.extra: dict[str, Any] = {}

    # -- asyncio.Transport API -------------------------------------------------------
    def set_protocol(self, protocol: Any) -> None:
        self.protocol = protocol

    def get_protocol(self) -> Any:
        return self.protocol

    def is_closing(self) -> bool:
        return self._closing

    def get_extra_info(self, name: str, default: Any = None) -> Any:
        return self.extra.get(name, default)

    def get_write_buffer_size(self) -> int:
        return 0

    def get_write_buffer_limits(self) -> tuple[int, int]:
        return (0, 65536)

    def set_write_buffer_limits(self, high: Any = None, low: Any = None) -> None:
        pass

    def pause_reading(self) -> None:
        pass

    def resume_reading(self) -> None:
        pass

    def is_reading(self) -> bool:
        return not self._closing

    def can_write_eof(self) -> bool:
        return True

    def write(self, data: Any) -> None:
        if self._closing or self._lost or self._eof_written:
            return
        data = bytes(data)
        if not data:
            return
        self.conn.on_write(self, data)

    def write_eof(self) -> None:
        if self._eof_written or self._closing:
            return
        self._eof_written = True
        self.conn.on_close(self, half=True)

    def close(self) -> None:
        if self._closing:
            return
        self._closing = True
        self.conn.on_close(self, half=False)
        self.loop.call_soon(self._connection_lost, None)

    def abort(self) -> None:
        # what the kernel does for SO_LINGER 0 / abort(): bytes not yet delivered are discarded and the peer gets a reset
        # (an application that reads after the reset gets the error, not what was still buffered)
        if self._closing:
            return
        self._closing = True
        conn = self.conn
        conn.net.trace("abort", conn.index, self.side)
        conn.net.count("abort")
        pipe = conn.pipe_from(self)
        pipe.drop_pending()
        other = conn.other(self)
        lat = pipe.rng.uniform(pipe.policy.lat_min, pipe.policy.lat_max)
        if not other._lost:
            self.loop.call_later(lat, other._connection_lost, ConnectionResetError(104, "Connection reset by peer"))
        self.loop.call_soon(self._connection_lost, None)

    # -- used by the network -------------------------------------------------------------
    def _connection_lost(self, exc: BaseException | None) -> None:
        if self._lost:
            return
        self._lost = True
        self._closing = True
        if self.protocol is not None:
            self.protocol.connection_lost(exc)


class Pipe:
    """One direction of a connection."""

    def __init__(self, conn: "Connection", name: str, policy: Policy) -> None:
        self.conn = conn
        self.name = name  # "c2s" | "s2c"
        self.policy = policy
        self.rng = policy.make_rng()
        self.written = 0  # bytes accepted from the writer
        self.delivered = 0  # bytes handed to the receiving protocol
        self.last_t = 0.0
        self.pending: list[list[Any]] = []  # [time, bytearray, handle]
        self.blackhole = False
        self.hold_until = 0.0
        self.eof_sent = False
        self.log: list[tuple[float, bytes]] = []  # delivered chunks (time, bytes)

    def _next_time(self, lat: float) -> float:
        loop = self.conn.net.loop
        t = max(loop.time() + lat, self.last_t + TICK, self.hold_until)
        self.last_t = t
        return t

    def _split(self, data: bytes) -> list[bytes]:
        seg = self.policy.segment
        if seg == "whole" or len(data) <= 1:
            return [data]
        if seg == "bytes":
            return [data[i : i + 1] for i in range(len(data))]
        if seg == "random":
            n = self.rng.randint(1, min(self.policy.max_parts, len(data)))
            if n == 1:
                return [data]
            cuts = sorted(self.rng.sample(range(1, len(data)), n - 1))
            return [data[a:b] for a, b in zip([0] + cuts, cuts + [len(data)])]
        if isinstance(seg, (tuple, list)) and seg[0] == "split":
            base = self.written
            offs = sorted({o - base for o in seg[1] if 0 < o - base < len(data)})
            if not offs:
                return [data]
            return [data[a:b] for a, b in zip([0] + offs, offs + [len(data)])]
        raise ValueError(f"unknown segmentation {seg!r}")

    def write(self, data: bytes) -> None:
        net = self.conn.net
        if self.blackhole:
            self.written += len(data)
            net.count("bytes_blackholed", len(data))
            return
        parts = self._split(data)
        self.written += len(data)
        if len(parts) > 1:
            net.count("segmented_writes")
        lat = self.rng.uniform(self.policy.lat_min, self.policy.lat_max)
        if self.policy.spike_p > 0:
            if not hasattr(self, "_spike_rng"):
                self._spike_rng = random.Random(self.policy.seed * 2654435761 % (2**32) + 17)
            if self._spike_rng.random() < self.policy.spike_p:
                lat += self._spike_rng.uniform(self.policy.spike_min, self.policy.spike_max)
                net.count("latency_spikes")
        for i, part in enumerate(parts):
            if (
                i == 0
                and self.pending
                and self.policy.coalesce > 0
                and self.rng.random() < self.policy.coalesce
            ):
                self.pending[-1][1] += part
                net.count("coalesced_writes")
                continue
            if i > 0:
                lat = self.rng.uniform(self.policy.seg_gap_min, self.policy.seg_gap_max)
            t = self._next_time(lat)
            entry: list[Any] = [t, bytearray(part), None]
            entry[2] = net.loop.call_at(t, self._deliver, entry)
            self.pending.append(entry)

    def _deliver(self, entry: list[Any]) -> None:
        if entry in self.pending:
            self.pending.remove(entry)
        if self.blackhole:
            return
        now = self.conn.net.loop.time()
        if now < self.hold_until - 1e-9:  # stalled after scheduling: re-schedule, keeping FIFO
            t = self._next_time(0.0)
            entry[0] = t
            entry[2] = self.conn.net.loop.call_at(t, self._deliver, entry)
            self.pending.insert(0, entry)
            self.pending.sort(key=lambda e: e[0])
            return
        chunk = bytes(entry[1])
        # a cut inside this chunk: deliver the prefix, then fire the cut
        cut = self.conn.next_cut(self.name, self.delivered, len(chunk))
        if cut is not None:
            k = cut.at - self.delivered
            if k > 0:
                self._hand_over(chunk[:k])
            self.conn.fire_cut(cut, rest=(self, chunk[k:]))
            return
        self._hand_over(chunk)

    def _hand_over(self, chunk: bytes) -> None:
        dst = self.conn.endpoint_receiving(self.name)
        self.delivered += len(chunk)
        self.log.append((self.conn.net.loop.time(), chunk))
        self.conn.net.trace("deliver", self.conn.index, self.name, len(chunk))
        if dst._lost or dst.protocol is None:
            return
        dst.protocol.data_received(chunk)
        # a cut exactly at this boundary fires right after the bytes were seen
        cut = self.conn.next_cut(self.name, self.delivered, 0)
        if cut is not None:
            self.conn.fire_cut(cut, rest=None)

    def send_eof(self) -> None:
        if self.eof_sent or self.blackhole:
            return
        self.eof_sent = True
        t = self._next_time(self.rng.uniform(self.policy.lat_min, self.policy.lat_max))
        self.conn.net.loop.call_at(t, self._deliver_eof)

    def _deliver_eof(self) -> None:
        if self.blackhole:
            return
        now = self.conn.net.loop.time()
        if now < self.hold_until - 1e-9:
            self.conn.net.loop.call_at(self._next_time(0.0), self._deliver_eof)
            return
        dst = self.conn.endpoint_receiving(self.name)
        self.conn.net.trace("eof", self.conn.index, self.name)
        if dst._lost or dst.protocol is None:
            return
        keep_open = dst.protocol.eof_received()
        if not keep_open:
            dst.close()

    def drop_pending(self) -> None:
        for e in self.pending:
            if e[2] is not None:
                e[2].cancel()
        self.pending.clear()


class Connection:
    def __init__(self, net: "SimNet", index: int, addr: Any, pol_c2s: Policy, pol_s2c: Policy):
        self.net = net
        self.index = index
        self.addr = addr
        self.c: SimStreamTransport = SimStreamTransport(net.loop, self, "c")
        self.s: SimStreamTransport = SimStreamTransport(net.loop, self, "s")
        self.c2s = Pipe(self, "c2s", pol_c2s)
        self.s2c = Pipe(self, "s2c", pol_s2c)
        self.peer_dead = False  # server side was killed by a cut
        self.server_streams: Any = None
        self.opened_at = net.loop.time()

    def pipe_from(self, tr: SimStreamTransport) -> Pipe:
        return self.c2s if tr is self.c else self.s2c

    def endpoint_receiving(self, pipe_name: str) -> SimStreamTransport:
        return self.s if pipe_name == "c2s" else self.c

    def other(self, tr: SimStreamTransport) -> SimStreamTransport:
        return self.s if tr is self.c else self.c

    # -- writer side -----------------------------------------------------------------
    def on_write(self, tr: SimStreamTransport, data: bytes) -> None:
        self.net.trace("write", self.index, tr.side, len(data))
        if self.net.on_wire is not None:
            self.net.on_wire(self, tr.side, data)
        other = self.other(tr)
        pipe = self.pipe_from(tr)
        if pipe.blackhole:
            pipe.write(data)
            return
        if other._lost or other._closing:
            # peer is gone: the kernel answers the first such write with RST (ECONNRESET at the writer); a write that comes
            # after that reset was seen fails with EPIPE - which of the two the application gets is a matter of timing
            self.net.count("write_to_closed_peer")
            t = pipe._next_time(pipe.rng.uniform(pipe.policy.lat_min, pipe.policy.lat_max) * 2)
            exc: ConnectionError = ConnectionResetError(104, "Connection reset by peer")
            if pipe.rng.random() < 0.3:
                exc = BrokenPipeError(32, "Broken pipe")
                self.net.count("write_to_closed_peer_epipe")
            self.net.loop.call_at(t, tr._connection_lost, exc)
            return
        pipe.write(data)

    def on_close(self, tr: SimStreamTransport, half: bool) -> None:
        self.net.trace("close", self.index, tr.side)
        self.pipe_from(tr).send_eof()

    # -- cuts ------------------------------------------------------------------------------
    def next_cut(self, pipe_name: str, delivered: int, n: int) -> Cut | None:
        for cut in self.net.cuts:
            if cut.fired or cut.conn != self.index or cut.dir != pipe_name:
                continue
            if n == 0:
                if cut.at == delivered:
                    return cut
            elif delivered <= cut.at < delivered + n and not (cut.at == delivered and delivered > 0):
                # at == delivered > 0 was handled as a boundary cut after the previous chunk
                return cut
        return None

    def fire_cut(self, cut: Cut, rest: tuple[Pipe, bytes] | None) -> None:
        cut.fired = True
        net = self.net
        net.count("cut_" + cut.kind)
        net.trace("cut", self.index, cut.dir, cut.at, cut.kind)
        net.fired_cuts.append((net.loop.time(), cut))
        if net.on_cut is not None:
            net.on_cut(self, cut)
        if cut.kind == "STALL":
            until = net.loop.time() + cut.stall
            for p in (self.c2s, self.s2c):
                p.hold_until = max(p.hold_until, until)
            if rest is not None and rest[1]:
                pipe, data = rest
                t = pipe._next_time(0.0)
                entry: list[Any] = [t, bytearray(data), None]
                entry[2] = net.loop.call_at(t, pipe._deliver, entry)
                pipe.pending.insert(0, entry)
            return
        # the peer (server side) dies now
        self.peer_dead = True
        if cut.kind == "BLACKHOLE":
            for p in (self.c2s, self.s2c):
                p.blackhole = True
                p.drop_pending()
            # the server process is gone; its handler (if any) sees a dead connection
            net.loop.call_soon(self.s._connection_lost, None)
            return
        for p in (self.c2s, self.s2c):
            p.drop_pending()
        if cut.kind == "EOF":
            # server closed its socket: client reads EOF, later client writes get RST
            self.s._closing = True
            net.loop.call_soon(self.s._connection_lost, None)
            self.s2c.send_eof()
            return
        if cut.kind == "RST":
            self.s._closing = True
            net.loop.call_soon(self.s._connection_lost, None)
            lat = self.s2c.rng.uniform(self.s2c.policy.lat_min, self.s2c.policy.lat_max)
            net.loop.call_later(
                lat, self.c._connection_lost, ConnectionResetError(104, "Connection reset by peer")
            )
            return
        raise ValueError(cut.kind)


class SimServer:
    """What asyncio.start_server returns, as far as gallia uses it."""

    def __init__(self, net: "SimNet", addr: Any, cb: Callable[..., Awaitable[None]]) -> None:
        self.net = net
        self.addr = addr
        self.cb = cb
        self._closed = False
        self._forever: asyncio.Future[None] | None = None
        self.sockets: list[Any] = []
        self.limit = 2**16

    async def __aenter__(self) -> "SimServer":
        return self

    async def __aexit__(self, *exc: Any) -> None:
        self.close()
        await self.wait_closed()

    def is_serving(self) -> bool:
        return not self._closed

    async def start_serving(self) -> None:
        return None

    async def serve_forever(self) -> None:
        if self._forever is not None:
            raise RuntimeError("server is already being awaited on serve_forever()")
        self._forever = self.net.loop.create_future()
        try:
            await self._forever
        except asyncio.CancelledError:
            try:
                self.close()
                await self.wait_closed()
            finally:
                raise
        finally:
            self._forever = None

    def close(self) -> None:
        if self._closed:
            return
        self._closed = True
        if self.net.listeners.get(self.addr) is self:
            del self.net.listeners[self.addr]
        if self._forever is not None and not self._forever.done():
            self._forever.cancel()

    async def wait_closed(self) -> None:
        return None


@dataclass
class ListenerState:
    mode: str = "accept"  # accept | refuse | unreachable
    accept_delay: float = 0.0


class SimNet:
    """The only network the system under test sees."""

    def __init__(self, loop: SimLoop, seed: int = 0) -> None:
        self.loop = loop
        self.rng = random.Random(seed)
        self.listeners: dict[Any, SimServer] = {}
        self.state: dict[Any, ListenerState] = {}
        self.connections: list[Connection] = []
        self.cuts: list[Cut] = []
        self.fired_cuts: list[tuple[float, Cut]] = []
        self.counters: dict[str, int] = {}
        self.events: list[tuple[Any, ...]] = []
        self.on_wire: Callable[[Connection, str, bytes], None] | None = None
        self.on_accept: Callable[[Connection], None] | None = None
        self.on_cut: Callable[[Connection, Cut], None] | None = None
        self.connect_log: list[tuple[float, Any, str]] = []
        self.policy_factory: Callable[[int, str], Policy] = self._default_policy
        self.connect_delay = (0.0002, 0.002)
        self.handler_tasks: list[asyncio.Task[Any]] = []
        self.unreachable_after = 127.0
        self._installed: list[tuple[Any, str, Any]] = []

    # -- bookkeeping --------------------------------------------------------------------------
    def count(self, key: str, n: int = 1) -> None:
        self.counters[key] = self.counters.get(key, 0) + n

    def trace(self, *ev: Any) -> None:
        self.events.append((len(self.events), round(self.loop.time(), 9)) + ev)

    def _default_policy(self, conn_index: int, direction: str) -> Policy:
        return Policy(seed=self.rng.getrandbits(32))

    def set_listener(self, addr: Any, mode: str, accept_delay: float = 0.0) -> None:
        self.state[addr] = ListenerState(mode, accept_delay)
        self.trace("listener", str(addr), mode)

    # -- server side ------------------------------------------------------------------------------
    async def start_server(
        self, cb: Callable[..., Awaitable[None]], host: Any = None, port: Any = None, **kw: Any
    ) -> SimServer:
        addr = ("tcp", host, port)
        srv = self._listen(addr, cb)
        srv.limit = kw.get("limit", 2**16)
        return srv

    async def start_unix_server(
        self, cb: Callable[..., Awaitable[None]], path: Any = None, **kw: Any
    ) -> SimServer:
        addr = ("unix", str(path))
        srv = self._listen(addr, cb)
        srv.limit = kw.get("limit", 2**16)
        return srv

    def _listen(self, addr: Any, cb: Callable[..., Awaitable[None]]) -> SimServer:
        if addr in self.listeners:
            raise OSError(98, "Address already in use")
        srv = SimServer(self, addr, cb)
        self.listeners[addr] = srv
        self.state.setdefault(addr, ListenerState())
        return srv

    def listen(self, addr: Any, cb: Callable[..., Awaitable[None]]) -> SimServer:
        """Synchronous registration for scripted peers."""
        return self._listen(addr, cb)

    # -- client side -----------------------------------------------------------------------------
    async def open_connection(
        self, host: Any = None, port: Any = None, **kw: Any
    ) -> tuple[asyncio.StreamReader, asyncio.StreamWriter]:
        return await self._connect(("tcp", host, port), kw.get("limit", 2**16))

    async def open_unix_connection(
        self, path: Any = None, **kw: Any
    ) -> tuple[asyncio.StreamReader, asyncio.StreamWriter]:
        return await self._connect(("unix", str(path)), kw.get("limit", 2**16))

    async def _connect(self, addr: Any, client_limit: int = 2**16) -> tuple[asyncio.StreamReader, asyncio.StreamWriter]:
        loop = self.loop
        rtt = self.rng.uniform(*self.connect_delay)
        st = self.state.get(addr)
        srv = self.listeners.get(addr)
        mode = st.mode if st is not None else "refuse"
        if mode == "accept" and srv is None:
            mode = "refuse"
        self.connect_log.append((loop.time(), addr, mode))
        self.trace("connect", str(addr), mode)
        self.count("connect_" + mode)
        if mode == "unreachable":
            await asyncio.sleep(self.unreachable_after)
            raise TimeoutError(110, "Connection timed out")
        await asyncio.sleep(rtt)
        if mode == "refuse":
            if addr[0] == "unix" and st is None:
                raise FileNotFoundError(2, "No such file or directory")
            raise ConnectionRefusedError(111, "Connection refused")
        assert st is not None and srv is not None
        if st.accept_delay:
            await asyncio.sleep(st.accept_delay)
        index = len(self.connections)
        conn = Connection(
            self, index, addr, self.policy_factory(index, "c2s"), self.policy_factory(index, "s2c")
        )
        self.connections.append(conn)

        def mk(tr: SimStreamTransport, limit: int) -> tuple[asyncio.StreamReader, asyncio.StreamWriter]:
            reader = asyncio.StreamReader(limit=limit, loop=loop)
            proto = asyncio.StreamReaderProtocol(reader, loop=loop)
            tr.set_protocol(proto)
            proto.connection_made(tr)
            writer = asyncio.StreamWriter(tr, proto, reader, loop)
            return reader, writer

        cr, cw = mk(conn.c, client_limit)
        sr, sw = mk(conn.s, srv.limit)
        # like asyncio's server-side StreamReaderProtocol, keep the streams alive after the handler returned
        conn.server_streams = (sr, sw)
        if self.on_accept is not None:
            self.on_accept(conn)
        task = loop.create_task(srv.cb(sr, sw))
        self.handler_tasks.append(task)
        return cr, cw

    # -- seams -----------------------------------------------------------------------------------
    def install(self) -> None:
        """Route asyncio's stream entry points (looked up through the module by gallia) here."""
        for name in ("open_connection", "open_unix_connection", "start_server", "start_unix_server"):
            self._installed.append((asyncio, name, getattr(asyncio, name)))
            setattr(asyncio, name, getattr(self, name))

    def uninstall(self) -> None:
        for mod, name, orig in reversed(self._installed):
            setattr(mod, name, orig)
        self._installed.clear()
