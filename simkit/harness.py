"""Seeded search driver: plan generation, parallel execution, known findings,
minimisation, replay files and evidence.

A *check* (one per property, in /verif/simcheck) provides

    gen(seed, index, tier) -> plan      (JSON-able dict; a pure function of its arguments)
    run(plan)              -> result    (dict, see `new_result`)

`run` must be a pure function of the plan and the code under test.
"""

from __future__ import annotations

import faulthandler
import builtins
import hashlib
import json
import multiprocessing
import os
import random
import sys
import time
import traceback
from concurrent.futures import ProcessPoolExecutor, as_completed
from concurrent.futures.process import BrokenProcessPool
from typing import Any, Callable, Iterable

def print(*a: Any, **kw: Any) -> None:  # noqa: A001
    """Messages may quote text that is not valid UTF-8 (lone surrogates): never let that kill the check."""
    builtins.print(*[x.encode("utf-8", "backslashreplace").decode() if isinstance(x, str) else x for x in a], **kw)


VERIF = os.path.dirname(os.path.dirname(os.path.abspath(__file__)))
EVIDENCE_DIR = os.path.join(VERIF, "evidence")
if os.path.realpath(os.environ.get("GALLIA_SRC") or "/repo/src") != os.path.realpath("/repo/src"):
    # a run against another source tree (sensitivity self-test with a seeded change) says nothing about /repo:
    # its evidence goes to the git-ignored scratch area, never over the evidence of the tree under test
    EVIDENCE_DIR = os.path.join(VERIF, "replays", "evidence-other-tree")
REPLAY_DIR = os.path.join(VERIF, "replays")
FINDINGS_FILE = os.path.join(VERIF, "known_findings.json")


# ----------------------------------------------------------------------------- seeds
def derive(*parts: Any) -> int:
    h = hashlib.sha256("|".join(str(p) for p in parts).encode()).digest()
    return int.from_bytes(h[:8], "big")


def rng_for(*parts: Any) -> random.Random:
    return random.Random(derive(*parts))


def digest_of(obj: Any) -> str:
    return hashlib.sha256(json.dumps(obj, sort_keys=True, default=repr).encode()).hexdigest()


# ----------------------------------------------------------------------------- results
def new_result() -> dict[str, Any]:
    return {
        "violations": [],  # [{"oracle": id, "sig": signature, "msg": text}]
        "trace": [],  # seam-level events (JSON-able), hashed into the digest
        "shape": "",  # abstracted trace (classes, no times / payloads)
        "nontrivial": False,
        "faults": {},  # fault kind -> times it actually fired
        "probes": {},  # rare-branch probes hit
        "vtime": 0.0,
        "steps": 0,
        "note": {},
    }


def violation(res: dict[str, Any], oracle: str, sig: str, msg: str) -> None:
    res["violations"].append({"oracle": oracle, "sig": sig, "msg": msg})


def bump(d: dict[str, int], key: str, n: int = 1) -> None:
    d[key] = d.get(key, 0) + n


class Check:
    prop = "C00"
    level = "exploration"
    title = ""
    rule = ""
    assumptions: list[str] = []
    components: dict[str, str] = {}
    # plan keys holding lists that the minimiser may shorten
    shrink_lists: list[str] = []
    quick_runs = 1000
    thorough_runs = 20000
    chunk = 50
    run_wall_cap = 900.0  # seconds of wall time a single chunk may need at most (hang detector of last resort)

    def gen(self, seed: int, index: int, tier: str) -> dict[str, Any]:
        raise NotImplementedError

    def run(self, plan: dict[str, Any]) -> dict[str, Any]:
        raise NotImplementedError

    def simplify(self, plan: dict[str, Any]) -> Iterable[dict[str, Any]]:
        """Yield simpler variants of `plan` (argument shrinking); optional."""
        return ()

    def setup_process(self) -> None:
        """Called once per worker process before the first run."""

    def strata(self, tier: str) -> int:
        """Number of leading indices that are deterministic strata (always run)."""
        return 0


# ----------------------------------------------------------------------------- known findings
def load_findings() -> dict[str, Any]:
    try:
        with open(FINDINGS_FILE) as f:
            return json.load(f)
    except FileNotFoundError:
        return {"findings": [], "fixed": []}


def known_signatures(prop: str) -> dict[str, dict[str, Any]]:
    return {f["signature"]: f for f in load_findings().get("findings", []) if f["property"] == prop}


# ----------------------------------------------------------------------------- workers
_CHECK: Check | None = None


def _worker_init(factory: Callable[[], Check]) -> None:
    global _CHECK
    faulthandler.enable()
    _CHECK = factory()
    _CHECK.setup_process()


def _run_chunk(seed: int, tier: str, indices: list[int], wall_cap: float) -> dict[str, Any]:
    assert _CHECK is not None
    chk = _CHECK
    faulthandler.dump_traceback_later(wall_cap, exit=True)
    agg: dict[str, Any] = {
        "runs": 0,
        "shapes": set(),
        "nontrivial_shapes": set(),
        "faults": {},
        "probes": {},
        "vtime": 0.0,
        "steps": 0,
        "violations": [],
        "samples": [],
        "errors": [],
        "digests": {},
    }
    try:
        for i in indices:
            try:
                plan = chk.gen(seed, i, tier)
                res = chk.run(plan)
            except (KeyboardInterrupt, SystemExit):
                raise
            except BaseException:  # harness problem (or an exception class no oracle classified), not a verdict
                agg["errors"].append({"index": i, "error": traceback.format_exc(limit=12)})
                continue
            agg["runs"] += 1
            sh = hashlib.sha256(res["shape"].encode()).digest()[:8]
            agg["shapes"].add(sh)
            if res["nontrivial"]:
                agg["nontrivial_shapes"].add(sh)
            for k, v in res["faults"].items():
                bump(agg["faults"], k, v)
            for k, v in res["probes"].items():
                bump(agg["probes"], k, v)
            agg["vtime"] += res["vtime"]
            agg["steps"] += res["steps"]
            if os.environ.get("VERIF_DIGESTS"):
                agg["digests"][i] = digest_of(res["trace"])
            if res["violations"]:
                agg["violations"].append(
                    {"index": i, "plan": plan, "violations": res["violations"]}
                )
            if len(agg["samples"]) < 1 and (res["nontrivial"] or i == indices[-1]):
                agg["samples"].append({"index": i, "plan": plan, "shape": res["shape"][:400]})
    finally:
        faulthandler.cancel_dump_traceback_later()
    return agg


# ----------------------------------------------------------------------------- minimisation
def _fires(chk: Check, plan: dict[str, Any], sig: str) -> bool:
    try:
        res = chk.run(plan)
    except (KeyboardInterrupt, SystemExit):
        raise
    except BaseException:
        return False
    return any(v["sig"] == sig for v in res["violations"])


def minimise(chk: Check, plan: dict[str, Any], sig: str, budget_s: float = 20.0) -> dict[str, Any]:
    """ddmin over the plan's lists, then argument simplification, same signature required."""
    t0 = time.time()
    best = json.loads(json.dumps(plan))

    def timed_out() -> bool:
        return time.time() - t0 > budget_s

    changed = True
    while changed and not timed_out():
        changed = False
        for key in chk.shrink_lists:
            items = _get(best, key)
            if not isinstance(items, list) or not items:
                continue
            n = 2
            while len(items) >= 1 and not timed_out():
                size = max(1, len(items) // n)
                reduced = False
                for start in range(0, len(items), size):
                    cand_items = items[:start] + items[start + size :]
                    cand = json.loads(json.dumps(best))
                    _set(cand, key, cand_items)
                    if _fires(chk, cand, sig):
                        best, items, reduced, changed = cand, cand_items, True, True
                        n = max(n - 1, 2)
                        break
                    if timed_out():
                        break
                if not reduced:
                    if size == 1:
                        break
                    n = min(len(items), n * 2)
        for cand in chk.simplify(best):
            if timed_out():
                break
            if _fires(chk, cand, sig):
                best = json.loads(json.dumps(cand))
                changed = True
                break
    return best


def _step(cur: Any, k: str) -> Any:
    if isinstance(cur, list):
        try:
            return cur[int(k)]
        except (ValueError, IndexError):
            return None
    if isinstance(cur, dict):
        return cur.get(k)
    return None


def _get(d: dict[str, Any], dotted: str) -> Any:
    cur: Any = d
    for k in dotted.split("."):
        cur = _step(cur, k)
        if cur is None:
            return None
    return cur


def _set(d: dict[str, Any], dotted: str, value: Any) -> None:
    cur: Any = d
    ks = dotted.split(".")
    for k in ks[:-1]:
        cur = _step(cur, k)
    if isinstance(cur, list):
        cur[int(ks[-1])] = value
    else:
        cur[ks[-1]] = value


# ----------------------------------------------------------------------------- driver
def run_check(factory: Callable[[], Check], argv_opts: dict[str, Any]) -> int:
    chk = factory()
    chk.setup_process()
    prop = chk.prop
    tier = argv_opts.get("tier") or os.environ.get("VERIF_TIER") or "quick"
    seed = int(argv_opts.get("seed") or os.environ.get("VERIF_SEED") or derive("default", prop) % 10**9)
    jobs = int(argv_opts.get("jobs") or os.environ.get("VERIF_JOBS") or min(16, os.cpu_count() or 4))
    budget = float(os.environ.get("VERIF_BUDGET_S") or (600 if tier == "thorough" else 0))
    n_runs = int(argv_opts.get("runs") or (chk.quick_runs if tier == "quick" else chk.thorough_runs))
    t0 = time.time()
    print(f"[{prop}] tier={tier} seed={seed} jobs={jobs} planned_runs={n_runs} gallia={_gallia_where()}")
    sys.stdout.flush()

    known = known_signatures(prop)
    total: dict[str, Any] = {
        "runs": 0,
        "shapes": set(),
        "nontrivial_shapes": set(),
        "faults": {},
        "probes": {},
        "vtime": 0.0,
        "steps": 0,
        "violations": [],
        "samples": [],
        "errors": [],
        "digests": {},
    }
    chunks = [list(range(a, min(a + chk.chunk, n_runs))) for a in range(0, n_runs, chk.chunk)]
    harness_error: str | None = None
    stopped_early = False
    ctx = multiprocessing.get_context("fork")
    try:
        with ProcessPoolExecutor(
            max_workers=jobs, mp_context=ctx, initializer=_worker_init, initargs=(factory,)
        ) as pool:
            futs = []
            it = iter(chunks)
            inflight: set[Any] = set()

            def submit_more() -> None:
                nonlocal stopped_early
                while len(inflight) < jobs * 2:
                    if budget and time.time() - t0 > budget:
                        stopped_early = True
                        return
                    c = next(it, None)
                    if c is None:
                        return
                    f = pool.submit(_run_chunk, seed, tier, c, chk.run_wall_cap)
                    inflight.add(f)
                    futs.append(f)

            submit_more()
            while inflight:
                done = next(as_completed(list(inflight)))
                inflight.discard(done)
                agg = done.result()
                for k in ("runs", "vtime", "steps"):
                    total[k] += agg[k]
                total["shapes"] |= agg["shapes"]
                total["nontrivial_shapes"] |= agg["nontrivial_shapes"]
                for k, v in agg["faults"].items():
                    bump(total["faults"], k, v)
                for k, v in agg["probes"].items():
                    bump(total["probes"], k, v)
                total["violations"] += agg["violations"]
                total["errors"] += agg["errors"]
                total["digests"].update(agg["digests"])
                if len(total["samples"]) < 3:
                    total["samples"] += agg["samples"][: 3 - len(total["samples"])]
                submit_more()
    except BrokenProcessPool:
        harness_error = "a worker process died (wall-clock cap or crash); see stderr"
    if total["errors"]:
        harness_error = f"{len(total['errors'])} run(s) raised inside the harness: " + total["errors"][0]["error"]

    # ---- classify violations
    known_hits: dict[str, int] = {}
    unknown: dict[str, dict[str, Any]] = {}
    for item in sorted(total["violations"], key=lambda x: x["index"]):
        for v in item["violations"]:
            if v["sig"] in known:
                bump(known_hits, v["sig"])
            elif v["sig"] not in unknown:
                unknown[v["sig"]] = {"index": item["index"], "plan": item["plan"], "violation": v}
    for sig, n in sorted(known_hits.items()):
        print(f"KNOWN-FINDING: property={prop} {sig} :: {known[sig]['what']} (met {n} times)")

    replay_paths = []
    if unknown and not harness_error:
        os.makedirs(REPLAY_DIR, exist_ok=True)
        per = max(5.0, 60.0 / len(unknown))
        for n, (sig, item) in enumerate(sorted(unknown.items())):
            if n >= 8:
                print(f"  ... {len(unknown) - 8} further distinct signatures not minimised:")
                for s2 in sorted(unknown)[8:60]:
                    print(f"      {s2}")
                break
            small = minimise(chk, item["plan"], sig, budget_s=per)
            res = chk.run(small)
            vio = next((v for v in res["violations"] if v["sig"] == sig), item["violation"])
            path = os.path.join(REPLAY_DIR, f"{prop}-{seed}-{item['index']}-{_slug(sig)}.json")
            with open(path, "w") as f:
                json.dump(
                    {
                        "property": prop,
                        "seed": seed,
                        "index": item["index"],
                        "tier": tier,
                        "signature": sig,
                        "oracle": vio["oracle"],
                        "message": vio["msg"],
                        "digest": digest_of(res["trace"]),
                        "plan": small,
                        "original_plan": item["plan"],
                        "trace_excerpt": res["trace"][-60:],
                    },
                    f,
                    indent=1,
                    default=repr,
                )
            replay_paths.append(path)
            print(f"VIOLATION property={prop} replay={path}")
            print(f"  signature: {sig}\n  {vio['msg']}")

    wall = time.time() - t0
    _write_evidence(chk, tier, seed, total, wall, known_hits, len(unknown), harness_error, stopped_early, jobs)
    if os.environ.get("VERIF_DIGESTS"):
        with open(os.environ["VERIF_DIGESTS"], "w") as f:
            json.dump({str(k): v for k, v in sorted(total["digests"].items())}, f)
    rate = total["runs"] / wall * 3600 if wall > 0 else 0
    print(
        f"[{prop}] runs={total['runs']} shapes={len(total['shapes'])} nontrivial_shapes={len(total['nontrivial_shapes'])} "
        f"sim_time={total['vtime']:.0f}s wall={wall:.1f}s ({rate:.0f} runs/h) "
        f"known={sum(known_hits.values())} new={len(unknown)}"
    )
    if harness_error:
        print(f"HARNESS-ERROR property={prop} {harness_error}")
        return 2
    return 1 if unknown else 0


def _slug(s: str) -> str:
    return "".join(c if c.isalnum() else "-" for c in s)[:60].strip("-")


def _gallia_where() -> str:
    try:
        import gallia

        return os.path.dirname(gallia.__file__)
    except Exception as e:  # noqa: BLE001
        return f"?({e})"


def _trim(x: Any, depth: int = 0) -> Any:
    """Samples are for reading: long strings / lists are abbreviated."""
    if isinstance(x, str):
        return x if len(x) <= 160 else x[:150] + f"...(+{len(x) - 150} chars)"
    if isinstance(x, list):
        out = [_trim(v, depth + 1) for v in x[:12]]
        if len(x) > 12:
            out.append(f"...(+{len(x) - 12} items)")
        return out
    if isinstance(x, dict):
        return {k: _trim(v, depth + 1) for k, v in x.items()}
    return x


def _write_evidence(
    chk: Check,
    tier: str,
    seed: int,
    total: dict[str, Any],
    wall: float,
    known_hits: dict[str, int],
    n_unknown: int,
    harness_error: str | None,
    stopped_early: bool,
    jobs: int,
) -> None:
    os.makedirs(EVIDENCE_DIR, exist_ok=True)
    ev = {
        "property_id": chk.prop,
        "tier": tier,
        "seed": seed,
        "level": chk.level,
        "coverage": {
            "evaluations": total["runs"],
            "distinct_nontrivial": len(total["nontrivial_shapes"]),
            "rule": chk.rule,
            "samples": _trim(total["samples"]) or [{"note": "no sample recorded"}],
            "exhaustive": False,
            "distinct_shapes": len(total["shapes"]),
            "simulated_seconds": round(total["vtime"], 3),
            "loop_steps": total["steps"],
            "runs_per_hour": round(total["runs"] / wall * 3600) if wall > 0 else 0,
            "faults_fired": dict(sorted(total["faults"].items())),
            "probes": dict(sorted(total["probes"].items())),
            "components": chk.components,
            "known_findings_met": known_hits,
            "workers": jobs,
            "stopped_by_budget": stopped_early,
            "harness_error": harness_error,
        },
        "assumptions": chk.assumptions,
        "wall_s": round(wall, 2),
        "violations": n_unknown,
    }
    with open(os.path.join(EVIDENCE_DIR, f"{chk.prop}.json"), "w") as f:
        json.dump(ev, f, indent=1, default=repr)


# ----------------------------------------------------------------------------- replay
def replay(factory_for: Callable[[str], Callable[[], Check]], path: str) -> int:
    with open(path) as f:
        rep = json.load(f)
    chk = factory_for(rep["property"])()
    chk.setup_process()
    res = chk.run(rep["plan"])
    dg = digest_of(res["trace"])
    sigs = [v["sig"] for v in res["violations"]]
    print(f"[replay] property={rep['property']} signature={rep['signature']}")
    print(f"[replay] digest recorded={rep.get('digest')} now={dg} same={dg == rep.get('digest')}")
    for v in res["violations"]:
        print(f"  {v['sig']}: {v['msg']}")
    if rep["signature"] in sigs:
        known = known_signatures(rep["property"])
        if rep["signature"] in known:
            print(f"KNOWN-FINDING: property={rep['property']} {rep['signature']}")
            return 0
        print(f"VIOLATION property={rep['property']} replay={path}")
        return 1
    print("[replay] the recorded violation did not reproduce on this tree")
    return 0
