"""Shared pieces of the simulated worlds: recorder, scripted transport, probes, seams."""

from __future__ import annotations

import asyncio
import logging
from typing import Any, Callable

import simkit

simkit.use_repo_tree()

from gallia.transports.base import BaseTransport, TargetURI  # noqa: E402


def quiet_logging(level: int = logging.CRITICAL + 10) -> None:
    """gallia logs a lot; nothing of it is an observable unless a check asks for it."""
    lg = logging.getLogger("gallia")
    lg.handlers[:] = [logging.NullHandler()]
    lg.setLevel(level)
    lg.propagate = False
    logging.getLogger("asyncio").setLevel(logging.CRITICAL + 10)
    import gallia.services.uds.server as _srv

    if not isinstance(_srv.traceback, _QuietTraceback):
        _srv.traceback = _QuietTraceback()  # type: ignore[assignment]


class _QuietTraceback:
    """gallia's server loop prints tracebacks of client errors to stderr; not an observable here."""

    def print_exc(self, *a: Any, **kw: Any) -> None:
        pass

    def __getattr__(self, name: str) -> Any:
        import traceback as _tb

        return getattr(_tb, name)


class Recorder:
    """Seam-level trace: (seq, vtime, actor, kind, detail)."""

    def __init__(self, loop: Any) -> None:
        self.loop = loop
        self.events: list[list[Any]] = []
        self._labels: dict[Any, str] = {}
        self.named: dict[Any, str] = {}

    def actor(self) -> str:
        try:
            t = asyncio.current_task()
        except RuntimeError:
            t = None
        if t is None:
            return "-"
        lab = self._labels.get(t)
        if lab is None:
            lab = self.named.get(t) or f"t{len(self._labels)}"
            self._labels[t] = lab
        return lab

    def name_task(self, task: Any, label: str) -> None:
        self.named[task] = label
        self._labels[task] = label

    def rec(self, _kind: str, /, **detail: Any) -> list[Any]:
        ev = [len(self.events), round(self.loop.time(), 9), self.actor(), _kind, detail]
        self.events.append(ev)
        return ev

    def jsonable(self) -> list[Any]:
        def conv(x: Any) -> Any:
            if isinstance(x, (bytes, bytearray)):
                return bytes(x).hex()
            if isinstance(x, BaseException):
                return type(x).__name__
            if isinstance(x, dict):
                return {k: conv(v) for k, v in x.items()}
            if isinstance(x, (list, tuple)):
                return [conv(v) for v in x]
            return x

        return [conv(e) for e in self.events]


class SimTarget(TargetURI):
    """A TargetURI that carries the simulated world (BaseTransport.reconnect passes it on)."""

    def __init__(self, raw: str, world: Any) -> None:
        super().__init__(raw)
        self.world = world


class ScriptTransport(BaseTransport, scheme="sim"):
    """Message-level transport whose peer is `target.world`.

    world API: on_connect() coroutine, on_open(transport), on_write(transport, data) (may raise),
    on_close(transport), rec (Recorder).
    """

    def __init__(self, target: SimTarget) -> None:
        super().__init__(target)
        self.world = target.world
        self.q: asyncio.Queue[Any] = asyncio.Queue()
        self.index = self.world.on_open(self)

    @classmethod
    async def connect(cls, target: Any, timeout: float | None = None) -> "ScriptTransport":
        assert isinstance(target, SimTarget)
        target.world.rec.rec("connect")
        await target.world.on_connect()
        inst = cls(target)
        target.world.rec.rec("connected", conn=inst.index)
        return inst

    async def close(self) -> None:
        self.world.rec.rec("close", conn=self.index, already=self.is_closed)
        if self.is_closed:
            return
        self.is_closed = True
        self.world.on_close(self)

    async def write(self, data: bytes, timeout: float | None = None, tags: Any = None) -> int:
        self.world.rec.rec("write", conn=self.index, data=bytes(data))
        stall = self.world.on_write(self, bytes(data))
        if stall:
            # the peer takes the bytes only after `stall` seconds (flow control, a gateway's acknowledgement): like a real
            # transport the write waits for that, bounded by the caller's timeout
            self.world.rec.rec("write_stalled", conn=self.index, timeout=timeout)
            try:
                await asyncio.wait_for(asyncio.sleep(stall), timeout)
            except TimeoutError:
                self.world.rec.rec("write_timeout", conn=self.index)
                raise
            self.world.on_write_done(self)
        return len(data)

    async def read(self, timeout: float | None = None, tags: Any = None) -> bytes:
        rec = self.world.rec
        rec.rec("read_begin", conn=self.index, timeout=timeout)
        try:
            item = await asyncio.wait_for(self.q.get(), timeout)
        except TimeoutError:
            rec.rec("read_timeout", conn=self.index)
            raise
        except asyncio.CancelledError:
            rec.rec("read_cancelled", conn=self.index)
            raise
        if isinstance(item, BaseException):
            rec.rec("read_error", conn=self.index, error=type(item).__name__)
            raise item
        rec.rec("read", conn=self.index, data=bytes(item))
        return item

    def feed(self, item: Any) -> None:
        """Peer -> client delivery (bytes, b"" for end of stream, or an exception to raise)."""
        if self.is_closed:
            return
        self.q.put_nowait(item)


def probed(cls: type, rec: Recorder, label: str = "tr") -> type:
    """Subclass of a real transport class whose read/write/close/connect are recorded."""

    class Probed(cls, scheme=cls.SCHEME):  # type: ignore[misc, call-arg]
        _n_instances = 0

        @classmethod
        async def connect(klass, target: Any, timeout: float | None = None) -> Any:
            rec.rec("connect")
            try:
                inst = await super().connect(target, timeout)
            except BaseException as e:
                rec.rec("connect_error", error=type(e).__name__)
                raise
            inst._index = Probed._n_instances
            Probed._n_instances += 1
            rec.rec("connected", conn=inst._index)
            return inst

        async def close(self) -> None:
            rec.rec("close", conn=getattr(self, "_index", -1))
            try:
                await super().close()
            except BaseException as e:
                rec.rec("close_error", error=type(e).__name__)
                raise
            rec.rec("closed", conn=getattr(self, "_index", -1))

        async def write(self, data: bytes, timeout: float | None = None, tags: Any = None) -> int:
            rec.rec("write", conn=self._index, data=bytes(data))
            try:
                n = await super().write(data, timeout, tags)
            except asyncio.CancelledError:
                rec.rec("write_cancelled", conn=self._index)
                raise
            except BaseException as e:
                rec.rec("write_error", conn=self._index, error=type(e).__name__)
                raise
            rec.rec("write_done", conn=self._index)
            return n

        async def read(self, timeout: float | None = None, tags: Any = None) -> bytes:
            rec.rec("read_begin", conn=self._index, timeout=timeout)
            try:
                data = await super().read(timeout, tags)
            except TimeoutError:
                rec.rec("read_timeout", conn=self._index)
                raise
            except asyncio.CancelledError:
                rec.rec("read_cancelled", conn=self._index)
                raise
            except BaseException as e:
                rec.rec("read_error", conn=self._index, error=type(e).__name__)
                raise
            rec.rec("read", conn=self._index, data=bytes(data))
            return data

    Probed.__name__ = f"Probed{cls.__name__}"
    return Probed


class Seams:
    """Install / restore module-attribute seams."""

    def __init__(self) -> None:
        self._saved: list[tuple[Any, str, Any]] = []

    def set(self, obj: Any, name: str, value: Any) -> None:
        self._saved.append((obj, name, getattr(obj, name)))
        setattr(obj, name, value)

    def restore(self) -> None:
        for obj, name, orig in reversed(self._saved):
            setattr(obj, name, orig)
        self._saved.clear()


def exc_class(e: BaseException | None) -> str:
    return type(e).__name__ if e is not None else "None"


def call_later_keep(loop: Any, delay: float, fn: Callable[..., Any], *args: Any) -> Any:
    return loop.call_later(delay, fn, *args)


def seed_unseeded_rng(seams: Seams, seed: int) -> None:
    """gallia's RNG() without seeds (security-access seeds) draws from the OS; in a simulation the
    freshness comes from the run's PRNG instead, so that a run is a pure function of its plan."""
    import random as _random

    import gallia.services.uds.server as _srv

    source = _random.Random(seed)
    orig = _srv.RNG.set_seeds

    def set_seeds(self: Any, *args: Any) -> None:
        if len(args) == 0:
            self.seeds = []
            self.seed(source.getrandbits(64))
        else:
            orig(self, *args)

    seams.set(_srv.RNG, "set_seeds", set_seeds)
