"""setup_cmd: verify that every seam the simulator patches still exists where expected
(a renamed seam must fail loudly here, not silently turn a stub off) and run a short
determinism smoke test.  Offline; nothing is installed or built.
"""

from __future__ import annotations

import asyncio
import importlib
import os
import signal
import sys

if os.environ.get("PYTHONHASHSEED") is None:
    os.environ["PYTHONHASHSEED"] = "0"
    os.execv(sys.executable, [sys.executable, "-m", "simkit.selfcheck"] + sys.argv[1:])

import simkit

simkit.use_repo_tree()

SEAMS = [
    ("asyncio", "open_connection"),
    ("asyncio", "open_unix_connection"),
    ("asyncio", "start_server"),
    ("asyncio", "start_unix_server"),
    ("gallia.services.uds.server", "time"),
    ("gallia.services.uds.server", "aiosqlite"),
    ("gallia.db.handler", "aiosqlite"),
    ("gallia.services.uds.ecu", "datetime"),
    ("gallia.command.base", "datetime"),
    ("gallia.log", "QueueListener"),
    ("logging", "time"),
    ("gallia.services.uds.server", "RNG"),
    ("gallia.transports.base", "BaseTransport"),
]


def main() -> int:
    bad = []
    for modname, attr in SEAMS:
        try:
            mod = importlib.import_module(modname)
            getattr(mod, attr)
        except Exception as e:  # noqa: BLE001
            bad.append(f"{modname}.{attr}: {e!r}")
    import gallia.transports.doip as doip
    import gallia.transports.hsfz as hsfz
    import gallia.transports.tcp as tcp
    import gallia.transports.unix as unix

    for m in (doip, hsfz, tcp, unix):
        if getattr(m, "asyncio", None) is not asyncio:
            bad.append(f"{m.__name__} does not look streams up through the asyncio module")
    from gallia.transports.base import BaseTransport

    for name in ("connect", "close", "read", "write"):
        if name not in BaseTransport.__abstractmethods__:
            bad.append(f"BaseTransport.{name} is no longer abstract")
    if not hasattr(asyncio, "Runner") or signal.getsignal(signal.SIGINT) is None:
        bad.append("asyncio.Runner / SIGINT handler seam missing")
    if bad:
        print("SEAM CHECK FAILED:\n  " + "\n  ".join(bad))
        return 2
    print(f"seams ok ({len(SEAMS)} attributes); gallia from {os.path.dirname(sys.modules['gallia'].__file__)}")

    # determinism smoke test: same plans twice, trace digests must agree
    from simkit.harness import digest_of

    failures = 0
    nondet = []
    import simcheck.__main__ as disp  # noqa: F401  (registry only)

    for prop in sorted(disp.MODULES):
        try:
            mod = importlib.import_module(disp.MODULES[prop])
        except ModuleNotFoundError:
            continue
        if not hasattr(mod, "make"):
            continue
        chk = mod.make()
        chk.setup_process()
        n = getattr(chk, "smoke_runs", 20)
        bad = 0
        try:
            for i in range(n):
                plan = chk.gen(12345, i * 7, "quick")
                a = digest_of(chk.run(plan)["trace"])
                b = digest_of(chk.run(plan)["trace"])
                if a != b:
                    bad += 1
                    print(f"NONDETERMINISM {prop} index={i * 7}")
        except Exception as e:  # noqa: BLE001
            bad += 1
            print(f"smoke run of {prop} raised {e!r}")
        if bad:
            nondet.append(prop)
        print(f"determinism smoke {prop}: {n} plans x2 ok" if not bad else f"determinism smoke {prop}: FAILED ({bad})")
    if nondet:
        # reported loudly, but not fatal for the other checks: each check stands on its own replay digests
        print(f"WARNING: determinism smoke test failed for {nondet}; run tools/determinism.sh")
    return 0


if __name__ == "__main__":
    sys.exit(main())
